"""Hypothesis strategies for realistic x86 AT&T instruction listings (matcher-side checks).

An instruction is [addr, mnemonic, ops_att, ops_norm]: ops_att is what is rendered into the
objdump-format listing, ops_norm the stream normal form (C09) the reference matcher works on.
The (att, norm) pairs come from the hand-written table below, not from JASM's normaliser.
The vocabulary is chosen to tempt the confusions the properties name: operands and mnemonics
that are prefixes/extensions of each other, addresses that spell mnemonics, runs of repeats.
"""
from hypothesis import strategies as st

MNEMONICS = [
    "mov", "movl", "movq", "cmov", "cmovne", "add", "addl", "adc", "sub", "call", "callq", "ret", "retq",
    "nop", "nopw", "push", "pop", "jmp", "jne", "je", "xor", "or", "lea", "cmp", "test", "dec", "inc", "and",
    "shl", "shr", "sar", "leave", "cltq", "imul", "bad", "fadd", "vblendvpd", "vfmadd231sd",
]
OPERANDS = [
    ("%rax", "%rax"), ("%eax", "%eax"), ("%ax", "%ax"), ("%al", "%al"), ("%ah", "%ah"),
    ("%rbx", "%rbx"), ("%ebx", "%ebx"), ("%bx", "%bx"), ("%bl", "%bl"), ("%bh", "%bh"),
    ("%rcx", "%rcx"), ("%ecx", "%ecx"), ("%cx", "%cx"), ("%cl", "%cl"),
    ("%rdx", "%rdx"), ("%edx", "%edx"), ("%dx", "%dx"), ("%dl", "%dl"), ("%dh", "%dh"),
    ("%rsi", "%rsi"), ("%esi", "%esi"), ("%si", "%si"), ("%sil", "%sil"),
    ("%rdi", "%rdi"), ("%edi", "%edi"), ("%di", "%di"), ("%dil", "%dil"),
    ("%rsp", "%rsp"), ("%esp", "%esp"), ("%sp", "%sp"), ("%spl", "%spl"),
    ("%rbp", "%rbp"), ("%ebp", "%ebp"), ("%bp", "%bp"), ("%bpl", "%bpl"),
    ("%r8", "%r8"), ("%r8d", "%r8d"), ("%r8w", "%r8w"), ("%r8b", "%r8b"), ("%r10", "%r10"), ("%r10d", "%r10d"),
    ("%r15", "%r15"), ("%xmm0", "%xmm0"), ("%xmm1", "%xmm1"), ("%xmm10", "%xmm10"),
    ("$0x0", "0x0"), ("$0x1", "0x1"), ("$0x10", "0x10"), ("$0x100", "0x100"), ("$0x8", "0x8"), ("$0x28", "0x28"),
    ("$0xffffffffffffffff", "0xffffffffffffffff"), ("$0xadd", "0xadd"),
    ("(%rax)", "[%rax]"), ("(%rbx)", "[%rbx]"), ("(%rsp)", "[%rsp]"),
    ("0x8(%rax)", "[%rax+0x8]"), ("0x10(%rax)", "[%rax+0x10]"), ("0x8(%rsp)", "[%rsp+0x8]"),
    ("-0x8(%rbp)", "[%rbp+-0x8]"), ("-0x18(%rbp)", "[%rbp+-0x18]"),
    ("0x10(%rbx,%rax,4)", "[%rbx+%rax*4+0x10]"), ("(%rbx,%rax,4)", "[%rbx+%rax*4]"), ("(%rax,%rax,1)", "[%rax+%rax*1]"),
    ("0x0(,%rax,8)", "[+%rax*8+0x0]"), ("0x0(%rax,%rax,1)", "[%rax+%rax*1+0x0]"),
    ("%fs:0x28", "%fs:0x28"), ("0x2ee4(%rip)", "[%rip+0x2ee4]"),
]
BRANCH_TARGETS = ["401000", "401010", "10", "1000", "add0", "4004d0"]
BASES = [0x0, 0x10, 0x400, 0x401000, 0xabc0, 0xadd0, 0xdec0, 0xbad0, 0xfee0, 0xe0, 0xcafe00, 0x7ffff7dd0000]


@st.composite
def operand(draw):
    return list(draw(st.sampled_from(OPERANDS)))


@st.composite
def instruction_body(draw):
    """-> (mnemonic, ops_att, ops_norm)"""
    m = draw(st.sampled_from(MNEMONICS))
    if m in ("call", "callq", "jmp", "jne", "je"):
        # branches are direct (hex target + annotation) or, for call/jmp, indirect through a register (*%reg)
        if m in ("jne", "je") or draw(st.integers(0, 3)) > 0:
            t = draw(st.sampled_from(BRANCH_TARGETS))
            return (m, [f"{t} <f+0x{t}>"], [t])
        r = draw(st.sampled_from(["*%rax", "*%rdx", "*%r8"]))
        return (m, [r], [r])
    if m in ("ret", "retq", "leave", "cltq", "nop", "bad") and draw(st.integers(0, 4)) > 0:
        return (m, [], [])
    n = draw(st.sampled_from([0, 1, 1, 2, 2, 2, 2, 3, 3, 4, 5]))
    ops = [draw(operand()) for _ in range(n)]
    return (m, [o[0] for o in ops], [o[1] for o in ops])


@st.composite
def listings(draw, min_len=1, max_len=12, bodies=None):
    n = draw(st.integers(min_len, max_len))
    out = []
    while len(out) < n:
        body = draw(instruction_body()) if bodies is None else draw(bodies)
        rep = draw(st.sampled_from([1, 1, 1, 1, 2, 3]))
        for _ in range(rep):
            out.append(body)
    out = out[:n]
    a = draw(st.sampled_from(BASES))
    L = []
    for m, oa, on in out:
        L.append([format(a, "x"), m, list(oa), list(on)])
        a += draw(st.integers(1, 7))
    return L


def att_view(L):
    return [(a, m, oa) for a, m, oa, on in L]


def norm_view(L):
    return [(a, m, on) for a, m, oa, on in L]


def parse_norm_mem(op):
    """'[%rbx+%rax*4+0x10]' -> {'a':'%rbx','b':'%rax','c':'4','k':'0x10'} (absent keys omitted); None if not a memory operand
    of the shapes in the vocabulary table."""
    if not (op.startswith("[") and op.endswith("]")):
        return None
    parts = op[1:-1].split("+")
    out = {}
    if not parts or not parts[0]:
        return None  # no base register: cannot be written as $deref (main_reg is mandatory)
    out["a"] = parts[0]
    rest = parts[1:]
    if rest and "*" in rest[0]:
        b, c = rest[0].split("*")
        out["b"], out["c"] = b, c
        rest = rest[1:]
    if rest:
        if len(rest) != 1:
            return None
        out["k"] = rest[0]
    return out


def present_addresses(draw, L, allow_restart=True):
    """Address columns as objdump prints them for other kinds of input: zero padded to a fixed width (raw-binary and object
    dumps: `00:`, `04:`; 8 or 16 digit columns), and - for relocatable objects, where every section starts at 0 again -
    restarting in the middle of the listing, so that an address occurs twice.  Modifies L in place; -> tags."""
    from hypothesis import strategies as st

    tags = []
    if len(L) >= 2 and allow_restart and draw(st.integers(0, 5)) == 0:
        k = draw(st.integers(1, len(L) - 1))
        base = int(L[0][0], 16)
        delta = int(L[k][0], 16) - base
        for rec in L[k:]:
            rec[0] = format(int(rec[0], 16) - delta, "x")
        tags.append("addresses-restart")
    if draw(st.integers(0, 5)) == 0:
        w = draw(st.sampled_from([2, 4, 8, 16]))
        for rec in L:
            rec[0] = rec[0].zfill(w)
        tags.append("addresses-zero-padded")
    return tags
