"""Real objdump listings as the listing source of the matcher-side properties.

The synthetic vocabulary of gen_listing.py has ~40 mnemonics and ~75 operands.  Here the listing is what objdump prints
for generated code bytes (vlib/objsrc.py), so the fields a rule is matched against are whatever real disassembly contains:
`%st(1)`, `{%k1}{z}`, `*%rax`, `%fs:0x28`, `(bad)`, `.byte`, 16-digit addresses, continuation lines, several sections.

The instruction list the reference matcher works on is the decoded stream (C10's separators) of the tree under test: what
"the k-th operand of an instruction" is, is decided by the parser-side properties (C08-C10) and checked there against an
independent reading of the lines; here the number of records is only cross-checked against that independent line
classifier.  The rule is described from that list with literal names, so the un-mutated pair is a match by construction.
"""
import re

from hypothesis import assume, strategies as st

from . import jasm_io
from .gen_pattern import describe_operand, lit_ok, maybe_int, substr
from .objsrc import listing_for, source_tag, sources
from .refnorm import classify_line, decode_stream


def records_of_text(text, config=None):
    """[(addr, mnemonic, [operands])] as the tree under test presents the listing to a rule, or None."""
    r = jasm_io.stream_of(text, config)
    if r[0] != "ok":
        return None
    recs = decode_stream(r[1])
    if recs is None:
        return None
    return [(a, m, [] if ops == [""] else list(ops)) for a, m, ops in recs]


def describe_mnemonic(draw, m, full):
    if full:
        return m if lit_ok(m, operand=False) else None
    for _ in range(3):
        s = substr(draw, m)
        if lit_ok(s, operand=False):
            return s
    runs = [r for r in re.findall(r"[A-Za-z0-9%:_-]+", m) if lit_ok(r, operand=False)]
    return max(runs, key=len) if runs else None


_PLAIN = re.compile(r"(?:%[a-z0-9]+|0x[0-9a-f]+|[0-9a-f]+|\[[%a-z0-9+*x-]*\])\Z")


def exotic_fields(recs):
    """[(record index, operand index or -1)] of fields that contain something the synthetic vocabulary never has: characters
    outside registers / hex numbers / the bracket form (`%st(1)`, `{%k1}{z}`, `*%rax`, `%fs:0x28`, `.byte`, `rex.W`, `(bad)` ...)."""
    out = []
    for k, (_, m, ops) in enumerate(recs):
        if not re.match(r"[a-z0-9]+\Z", m):
            out.append((k, -1))
        for q, o in enumerate(ops[:4]):
            if not _PLAIN.match(o):
                out.append((k, q))
    return out


def describe_record(draw, rec, full, force_ops=False, min_ops=0):
    """An item that matches the record by construction, or None if a needed field has no literal description."""
    _, m, ops = rec
    name = describe_mnemonic(draw, m, full[0])
    if name is None:
        return None
    lo = max(1 if (force_ops and ops) else 0, min(min_ops, len(ops), 4))
    k = draw(st.integers(lo, min(len(ops), 4)))
    pats = []
    for o in ops[:k]:
        s = describe_operand(draw, o, full[1])
        if s is None:
            break
        pats.append(s)
    return {name: pats} if pats else name


MUTATIONS = ["none", "none", "none", "delete-line", "swap-lines", "duplicate-line", "other-window-name", "operand-shift"]


@st.composite
def real_window_cases(draw, max_chunks=6, max_items=4):
    """{'text': listing as objdump printed it (after at most one line-level mutation), 'pattern': rule describing a window of the
    un-mutated listing, 'mut': ..., 'src': source tag}"""
    src = draw(sources(max_chunks=max_chunks))
    rc, text, _ = listing_for(src)
    assume(rc == 0 and text)
    lines = text.split("\n")
    inst_idx = [k for k, ln in enumerate(lines) if classify_line(ln)[0] == "inst"]
    recs = records_of_text(text)
    assume(recs is not None and len(recs) == len(inst_idx) and recs)
    n = len(recs)
    full = (draw(st.booleans()), draw(st.booleans()))
    exo = exotic_fields(recs)
    focus = None
    if exo and draw(st.booleans()):
        # half of the windows contain a field of a kind the synthetic vocabulary lacks, and the item describes that field
        # the kind of oddity is drawn first (which characters outside the plain forms the field has), then a field of that kind:
        # otherwise the frequent kinds (prefix words, rex.W) crowd out the rare ones ({%k1}, %st(1), *%rax)
        kinds = {}
        for k_, q_ in exo:
            f_ = recs[k_][1] if q_ < 0 else recs[k_][2][q_]
            kinds.setdefault("".join(sorted(set(re.sub(r"[%a-z0-9\[\]+x-]", "", f_)))) or "word", []).append((k_, q_))
        focus = draw(st.sampled_from(kinds[draw(st.sampled_from(sorted(kinds)))]))
        i = max(0, focus[0] - draw(st.integers(0, max_items - 1)))
        wlen = draw(st.integers(focus[0] - i + 1, min(max_items, n - i)))
    else:
        i = draw(st.integers(0, n - 1))
        wlen = draw(st.integers(1, min(max_items, n - i)))
    mut = draw(st.sampled_from(MUTATIONS))
    pattern = []
    for k in range(i, i + wlen):
        it = describe_record(draw, recs[k], full, force_ops=mut == "operand-shift", min_ops=focus[1] + 1 if focus and focus[0] == k else 0)
        assume(it is not None)
        pattern.append(it)
    if mut == "delete-line":
        del lines[inst_idx[draw(st.integers(i, i + wlen - 1))]]
    elif mut == "swap-lines" and n >= 2:
        k = draw(st.integers(i, i + wlen - 1))
        k2 = k + 1 if k + 1 < n else k - 1
        a, b = inst_idx[k], inst_idx[k2]
        lines[a], lines[b] = lines[b], lines[a]
    elif mut == "duplicate-line":
        k = inst_idx[draw(st.integers(i, i + wlen - 1))]
        lines.insert(k, lines[k])
    elif mut == "other-window-name":
        # one item asks for a name taken from another instruction of the listing
        q = draw(st.integers(0, wlen - 1))
        other = describe_record(draw, recs[draw(st.integers(0, n - 1))], full)
        assume(other is not None)
        pattern[q] = other
    elif mut == "operand-shift":
        # the item's operand names one position further on
        q = draw(st.integers(0, wlen - 1))
        it = pattern[q]
        if isinstance(it, dict):
            nm = list(it)[0]
            filler = describe_operand(draw, recs[i + q][2][0], False) if recs[i + q][2] else None
            pattern[q] = {nm: ([filler] if filler is not None else ["zz"]) + list(it[nm])}
    for it in pattern:
        nm = it if not isinstance(it, dict) else list(it)[0]
        assume(lit_ok(str(nm), operand=False))
        if isinstance(it, dict):
            assume(all(lit_ok(str(o)) for o in it[nm]))
    return {"text": "\n".join(lines), "pattern": pattern, "mut": mut, "src": source_tag(src), "flags_drawn": list(full), "window": [i, wlen], "focus": list(focus) if focus else None}
