"""Instruction list -> text in the format `objdump -d -M att` prints (binutils 2.40).

insts: list of (addr_hex, mnemonic, [operand AT&T text]).  Presentation knobs are explicit
so that C16 can vary them; defaults reproduce what objdump prints for an ELF64 object.
"""

HEADER = ["", "x.o:     file format elf64-x86-64", "", "", "Disassembly of section .text:", ""]


def inst_line(addr, mnemonic, ops, pad=2, raw="90", annot=""):
    # objdump: address, ':\t', bytes padded to 7*3 columns, '\t', mnemonic padded to 6 + ' ', operands
    raw_col = raw + " " * max(1, 21 - len(raw))
    text = mnemonic
    if ops:
        text = mnemonic + " " * max(1, 7 - len(mnemonic)) + ",".join(ops)
    return " " * pad + f"{addr}:\t{raw_col}\t{text}{annot}"


def render(insts, header=True, label="f", pad=2, cont=(), sections=None):
    """cont: indices of instructions printed as > 7 bytes long, i.e. followed by a byte-continuation line.
    sections: {index: name} - a new `Disassembly of section <name>:` block (with its label line) starts at that instruction."""
    out = list(HEADER) if header else []
    if label is not None and insts:
        out.append(f"{int(insts[0][0], 16):016x} <{label}>:")
    for k, (a, m, ops) in enumerate(insts):
        if sections and k in sections:
            out += ["", f"Disassembly of section {sections[k]}:", "", f"{int(a, 16):016x} <{sections[k].strip('.').replace('.', '_')}>:"]
        if k in cont:
            out.append(inst_line(a, m, ops, pad=pad, raw="48 b8 88 77 66 55 44"))
            out.append(" " * pad + f"{int(a, 16) + 7:x}:\t33 22 11 ")
        else:
            out.append(inst_line(a, m, ops, pad=pad))
    return "\n".join(out) + "\n"
