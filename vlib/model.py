"""Case model helpers: canonical JSON, hashing, instruction records.

An instruction is a list [addr, mnemonic, [operand, ...]].  In *matcher* checks operands are
kept as pairs: the AT&T text that is rendered into the listing and the stream normal form the
property statements talk about (C09); the two are related by a hand-written table in
gen_listing.py, not by JASM's normaliser.
"""
import hashlib
import json


def canon(obj):
    return json.dumps(obj, sort_keys=True, separators=(",", ":"), default=str)


def digest(obj):
    return hashlib.blake2b(canon(obj).encode(), digest_size=8).digest()


def hexdigest(obj):
    return hashlib.blake2b(canon(obj).encode(), digest_size=8).hexdigest()


def stream_record(addr, mnemonic, ops):
    """The text C10 says one instruction contributes to the stream."""
    return f"{addr}::{mnemonic},{','.join(ops)},|"


def stream_text(insts):
    return "".join(stream_record(a, m, o) for a, m, o in insts)
