"""Drive JASM the way a user does: files on disk, MasterOfPuppets / Yaml2Regex / the CLI.

Every call returns an Outcome: ("ok", value) or ("exc", exception type name, message).
A regex-engine timeout is reported as ("inconclusive", ...), never as a result.
"""
import atexit
import os
import zlib
import shutil
import subprocess
import sys
import tempfile

import yaml

from . import env  # noqa: F401  (sets sys.path)
from jasm.global_definitions import (  # noqa: E402
    InputFileType,
    MatchConfig,
    MatchingReturnMode,
    MatchingSearchMode,
)
from jasm.match import MasterOfPuppets  # noqa: E402
from jasm.jasm_regex.yaml2regex import Yaml2Regex  # noqa: E402

import logging as _logging

_logging.getLogger("jasm.logging_config").addHandler(_logging.NullHandler())  # keep JASM's error logging off the checks' stderr

RM = {
    "list": MatchingReturnMode.matched_addrs_list,
    "bool": MatchingReturnMode.bool,
    "str": MatchingReturnMode.all_instructions_string,
}
SM = {"all": MatchingSearchMode.all_finds, "first": MatchingSearchMode.first_find}


class _Dumper(yaml.SafeDumper):
    def ignore_aliases(self, data):  # never emit &id001 anchors: they would look like capture names
        return True


def dump_yaml(doc):
    return yaml.dump(doc, Dumper=_Dumper, sort_keys=False, default_flow_style=False, allow_unicode=True)


class Scratch:
    """Private scratch directory of this process (under /verif/.work, removed at exit)."""

    def __init__(self):
        # worker processes leave through os._exit (no atexit): the run's parent removes $VERIF_RUN_DIR as a whole
        root = os.environ.get("VERIF_RUN_DIR") or env.WORK_ROOT
        os.makedirs(root, exist_ok=True)
        self.dir = tempfile.mkdtemp(prefix=f"w{os.getpid()}_", dir=root)
        self._pid = os.getpid()
        self._n = 0
        atexit.register(self.cleanup)

    def cleanup(self):
        if os.getpid() == self._pid:
            shutil.rmtree(self.dir, ignore_errors=True)

    def path(self, name):
        return os.path.join(self.dir, name)

    def fresh(self, suffix):
        self._n += 1
        return os.path.join(self.dir, f"f{self._n}{suffix}")

    def write(self, name, data):
        p = self.path(name)
        mode = "wb" if isinstance(data, bytes) else "w"
        with open(p, mode) as f:
            f.write(data)
        return p


_scratch = None


def scratch():
    global _scratch
    if _scratch is None or _scratch._pid != os.getpid():
        _scratch = Scratch()
    return _scratch


def rule_text(doc):
    return doc if isinstance(doc, str) else dump_yaml(doc)


def make_doc(pattern, mn_full=None, op_full=None, macros=None, config=None):
    doc = {}
    cfg = dict(config or {})
    if mn_full is not None:
        cfg["mnemonics-full-match"] = mn_full
    if op_full is not None:
        cfg["operands-full-match"] = op_full
    if cfg:
        doc["config"] = cfg
    if macros is not None:
        doc["macros"] = macros
    doc["pattern"] = pattern
    return doc


def classify_exc(exc):
    msg = str(exc)
    if isinstance(exc, ValueError) and "Regex timeout" in msg:
        return ("inconclusive", "regex-timeout", msg)
    if isinstance(exc, TimeoutError):
        return ("inconclusive", "regex-timeout", msg)
    return ("exc", type(exc).__name__, msg[:300])


CRLF_MOD = 8
REUSE_MOD = 4  # one call in four (chosen by a hash of the rule text and the modes, so a replay makes the same choice)


def _reuse_selected(rule_path, mode, search, only_addr):
    import zlib

    try:
        with open(rule_path, "rb") as f:
            h = zlib.crc32(f.read())
    except OSError:
        return False
    return (h + zlib.crc32(f"{mode}|{search}|{only_addr}".encode())) % REUSE_MOD == 0


def match_files(rule_path, input_path, mode="list", search="all", only_addr=False, macros=None, binary=False, want_regex=False):
    try:
        mop = MasterOfPuppets(
            MatchConfig(
                pattern_pathstr=rule_path,
                input_file=input_path,
                input_file_type=InputFileType.binary if binary else InputFileType.assembly,
                return_only_address=only_addr,
                return_mode=RM[mode],
                matching_mode=SM[search],
                macros=macros,
            )
        )
        res = mop.perform_matching()
        if REUSE_MOD and _reuse_selected(rule_path, mode, search, only_addr):
            # Asking the same MasterOfPuppets again must give the same answer (C14: repeating an operation gives the same
            # result; holds on the pinned tree for every mode).  A difference is reported as an exception outcome, which
            # every check treats as a deviation.
            res2 = mop.perform_matching()
            if res2 != res:
                return ("exc", "SecondCallOnSameInstanceDiffers", ("first=%r second=%r" % (res, res2))[:300])
    except (Exception, AssertionError) as exc:  # noqa: BLE001 - outcome classification is the point
        return classify_exc(exc)
    if want_regex:
        return ("ok", res, mop.regex_rule)
    return ("ok", res)


def match(doc, listing_text, mode="list", search="all", only_addr=False, macros=None, want_regex=False):
    """doc: python object (dumped as YAML) or raw YAML text; listing_text: objdump-format text."""
    s = scratch()
    rp = s.write("rule.yaml", rule_text(doc))
    if CRLF_MOD and isinstance(listing_text, str) and "\r" not in listing_text and zlib.crc32(listing_text.encode("utf-8", "replace")) % CRLF_MOD == 0:
        # the same listing as a tool on Windows would have saved it: line ends are presentation, the tree under test reads
        # listings with universal newlines (one listing in eight, chosen by its content, so every mode sees the same file)
        listing_text = listing_text.replace("\n", "\r\n")
        lp = s.path("listing.s")
        with open(lp, "w", newline="") as f:
            f.write(listing_text)
    else:
        lp = s.write("listing.s", listing_text)
    return match_files(rp, lp, mode=mode, search=search, only_addr=only_addr, macros=macros, want_regex=want_regex)


def stream_of(listing_text, config=None):
    """The stream string JASM builds for a listing (all_instructions_string)."""
    doc = make_doc(["zzzzzzzz"], config=config)
    return match(doc, listing_text, mode="str")


def compile_rule(doc, macros=None):
    s = scratch()
    rp = s.write("rule.yaml", rule_text(doc))
    try:
        return ("ok", Yaml2Regex(rp, macros_from_terminal=macros).produce_regex())
    except (Exception, AssertionError) as exc:  # noqa: BLE001
        return classify_exc(exc)


def cli(args, cwd, timeout=120, env_extra=None):
    e = dict(os.environ)
    e["PYTHONPATH"] = env.SRC
    e["PYTHONHASHSEED"] = "0"
    if env_extra:
        e.update(env_extra)
    p = subprocess.run([sys.executable, "-m", "jasm.main", *args], cwd=cwd, capture_output=True, text=True, timeout=timeout, env=e)
    return p.returncode, p.stdout, p.stderr
