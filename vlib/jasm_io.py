"""Drive JASM the way a user does: files on disk, MasterOfPuppets / Yaml2Regex / the CLI.

Every call returns an Outcome: ("ok", value) or ("exc", exception type name, message).
A regex-engine timeout is reported as ("inconclusive", ...), never as a result.
"""
import atexit
import os
import re
import zlib
import shutil
import subprocess
import sys
import tempfile

import yaml

from . import env  # noqa: F401  (sets sys.path)
from jasm.global_definitions import (  # noqa: E402
    InputFileType,
    MatchConfig,
    MatchingReturnMode,
    MatchingSearchMode,
)
from jasm.match import MasterOfPuppets  # noqa: E402
from jasm.jasm_regex.yaml2regex import Yaml2Regex  # noqa: E402

import logging as _logging

_logging.getLogger("jasm.logging_config").addHandler(_logging.NullHandler())  # keep JASM's error logging off the checks' stderr

RM = {
    "list": MatchingReturnMode.matched_addrs_list,
    "bool": MatchingReturnMode.bool,
    "str": MatchingReturnMode.all_instructions_string,
}
SM = {"all": MatchingSearchMode.all_finds, "first": MatchingSearchMode.first_find}


class _Dumper(yaml.SafeDumper):
    def ignore_aliases(self, data):  # never emit &id001 anchors: they would look like capture names
        return True


def dump_yaml(doc):
    return yaml.dump(doc, Dumper=_Dumper, sort_keys=False, default_flow_style=False, allow_unicode=True)


class Scratch:
    """Private scratch directory of this process (under /verif/.work, removed at exit)."""

    def __init__(self):
        # worker processes leave through os._exit (no atexit): the run's parent removes $VERIF_RUN_DIR as a whole
        root = os.environ.get("VERIF_RUN_DIR") or env.WORK_ROOT
        os.makedirs(root, exist_ok=True)
        self.dir = tempfile.mkdtemp(prefix=f"w{os.getpid()}_", dir=root)
        self._pid = os.getpid()
        self._n = 0
        atexit.register(self.cleanup)

    def cleanup(self):
        if os.getpid() == self._pid:
            shutil.rmtree(self.dir, ignore_errors=True)

    def path(self, name):
        return os.path.join(self.dir, name)

    def fresh(self, suffix):
        self._n += 1
        return os.path.join(self.dir, f"f{self._n}{suffix}")

    def write(self, name, data):
        p = self.path(name)
        mode = "wb" if isinstance(data, bytes) else "w"
        with open(p, mode) as f:
            f.write(data)
        return p


_scratch = None


def scratch():
    global _scratch
    if _scratch is None or _scratch._pid != os.getpid():
        _scratch = Scratch()
    return _scratch


def rule_text(doc):
    return doc if isinstance(doc, str) else dump_yaml(doc)


def make_doc(pattern, mn_full=None, op_full=None, macros=None, config=None):
    doc = {}
    cfg = dict(config or {})
    if mn_full is not None:
        cfg["mnemonics-full-match"] = mn_full
    if op_full is not None:
        cfg["operands-full-match"] = op_full
    if cfg:
        doc["config"] = cfg
    if macros is not None:
        doc["macros"] = macros
    doc["pattern"] = pattern
    return doc


def classify_exc(exc):
    msg = str(exc)
    if isinstance(exc, ValueError) and "Regex timeout" in msg:
        return ("inconclusive", "regex-timeout", msg)
    if isinstance(exc, TimeoutError):
        return ("inconclusive", "regex-timeout", msg)
    return ("exc", type(exc).__name__, msg[:300])


CRLF_MOD = 8
REUSE_MOD = 4  # one call in four (chosen by a hash of the rule text and the modes, so a replay makes the same choice)


LIBCFG_MOD = 8    # one macro-free call in eight gets a complete rule file (with a config block) as an extra macro library
DEBUGLOG_MOD = 16  # one call in sixteen runs with the library logger at DEBUG level


INTERLEAVE_MOD = 8  # one call in eight: between constructing the matcher and asking it, another matcher is constructed for the same rule with both full-match flags flipped


def _construct_flag_flipped_twin(rule_path, input_path, binary, macros):
    """Construct (and drop) a MasterOfPuppets for the same rule with `mnemonics-full-match` and `operands-full-match` flipped and
    everything else in its config as it is.  A rule is compiled when its matcher is constructed, so what the first matcher answers
    afterwards must not change (holds on the pinned tree: the flags are read during compilation only; range, sections and style
    are the same in both rules)."""
    try:
        with open(rule_path, encoding="utf-8") as f:
            doc = yaml.load(f, Loader=_HexTextLoader)
        if not isinstance(doc, dict) or "pattern" not in doc or not isinstance(doc.get("config") or {}, dict):
            return
        cfg = dict(doc.get("config") or {})
        for flag in ("mnemonics-full-match", "operands-full-match"):
            cfg[flag] = not bool(cfg.get(flag))
        twin = {"config": cfg, **{k: v for k, v in doc.items() if k != "config"}}
        # (a path of this process's own: shards that share a directory of rule files never read each other's half-written twin)
        twin_path = "%s.twin.%d.yaml" % (rule_path, os.getpid())
        with open(twin_path + ".tmp", "w", encoding="utf-8") as f:
            yaml.safe_dump(twin, f, sort_keys=False)
        os.replace(twin_path + ".tmp", twin_path)
        MasterOfPuppets(MatchConfig(pattern_pathstr=twin_path, input_file=input_path, input_file_type=InputFileType.binary if binary else InputFileType.assembly,
                                    return_only_address=False, return_mode=RM["list"], matching_mode=SM["all"], macros=macros))
    except (Exception, AssertionError):  # noqa: BLE001 - a twin that cannot be built is no twin
        return


def _selector(rule_path, mode, search, only_addr, input_path=None):
    """A number derived from the rule text, the input and the modes: the variations above are a function of the call, not of chance.
    (The input is part of it since round 7: checks that always ask with the same rule - the stream of a listing - would otherwise
    make the same choice for every case.)"""
    try:
        with open(rule_path, "rb") as f:
            h = zlib.crc32(f.read())
    except OSError:
        return 7
    if input_path is not None and os.path.isfile(input_path):  # (a pipe is not read here: it delivers once)
        try:
            with open(input_path, "rb") as f:
                h = zlib.crc32(f.read(65536), h)
        except OSError:
            pass
    return (h + zlib.crc32(f"{mode}|{search}|{only_addr}".encode())) & 0x7FFFFFFF


_LIB_WITH_CONFIG = None


def _library_with_config():
    """A complete rule file used as a macro library: it has a config block of its own (which concerns only that file's own
    pattern), an unused macro and a pattern.  Passing it through `macros=` must not change anything for a rule that uses no
    macro at all."""
    global _LIB_WITH_CONFIG
    s = scratch()
    if _LIB_WITH_CONFIG is None or not os.path.exists(_LIB_WITH_CONFIG) or os.path.dirname(_LIB_WITH_CONFIG) != s.dir:
        _LIB_WITH_CONFIG = s.write("zz_library_rule.yaml", dump_yaml({
            "config": {"mnemonics-full-match": False, "operands-full-match": False, "style": "att"},
            "macros": [{"name": "@zz_unused_library_macro_", "pattern": "zzq"}],
            "pattern": ["zzq"]}))
    return _LIB_WITH_CONFIG


def match_files(rule_path, input_path, mode="list", search="all", only_addr=False, macros=None, binary=False, want_regex=False, single_read=False):
    import logging

    selector = _selector(rule_path, mode, search, only_addr)
    # (single_read: the input can be read once only - a pipe)
    reuse = not single_read and bool(REUSE_MOD) and (selector % REUSE_MOD == 0 or _selector(rule_path, mode, search, only_addr, input_path) % REUSE_MOD == 0)
    extra_lib = False
    if macros is None and LIBCFG_MOD and selector % LIBCFG_MOD == 1:
        try:
            with open(rule_path, "rb") as f:
                extra_lib = b"@" not in f.read()  # macro-free rules only: with macro files given, an '@' means something
        except OSError:
            extra_lib = False
        if extra_lib:
            macros = [_library_with_config()]
    from jasm.logging_config import logger as jasm_logger  # the library's own logger object (its level is set explicitly)

    old_level = jasm_logger.level
    # (the input is part of the choice as well: checks that always ask with the same rule would otherwise never run at DEBUG level)
    debug = DEBUGLOG_MOD and (selector % DEBUGLOG_MOD == 2 or _selector(rule_path, mode, search, only_addr, input_path) % DEBUGLOG_MOD == 2)
    if debug:
        jasm_logger.setLevel(logging.DEBUG)  # the answer must not depend on how much is logged
    try:
        def build(m_, s_, o_):
            return MasterOfPuppets(
                MatchConfig(
                    pattern_pathstr=rule_path,
                    input_file=input_path,
                    input_file_type=InputFileType.binary if binary else InputFileType.assembly,
                    return_only_address=o_,
                    return_mode=RM[m_],
                    matching_mode=SM[s_],
                    macros=macros,
                )
            )

        mop = build(mode, search, only_addr)
        if INTERLEAVE_MOD and not single_read and _selector(rule_path, mode, search, only_addr, input_path) % INTERLEAVE_MOD == 5:
            _construct_flag_flipped_twin(rule_path, input_path, binary, macros)
        res = mop.perform_matching()
        if reuse:
            # Asking the same MasterOfPuppets again must give the same answer (C14: repeating an operation gives the same
            # result; holds on the pinned tree for every mode).  A difference is reported as an exception outcome, which
            # every check treats as a deviation.
            res2 = mop.perform_matching()
            if res2 != res:
                return ("exc", "SecondCallOnSameInstanceDiffers", ("first=%r second=%r" % (res, res2))[:300])
            if mode in ("bool", "list"):
                # ... and so must asking it another question: the modes are read from its public match_config when it is asked
                # (asked for what says most: every match with its full text - unless that is what it was constructed for)
                m2, s2, o2 = ("list", "all", False) if (mode, search, only_addr) != ("list", "all", False) else ("list", "first", True)
                mop.match_config.return_mode, mop.match_config.matching_mode, mop.match_config.return_only_address = RM[m2], SM[s2], o2
                got = mop.perform_matching()
                want = build(m2, s2, o2).perform_matching()
                if got != want:
                    return ("exc", "ModeSwitchOnSameInstanceDiffers", ("constructed %s/%s/%s then asked %s/%s/%s: %r, a fresh instance: %r" % (mode, search, only_addr, m2, s2, o2, got, want))[:300])
    except (Exception, AssertionError) as exc:  # noqa: BLE001 - outcome classification is the point
        return classify_exc(exc)
    finally:
        if debug:
            jasm_logger.setLevel(old_level)
    if want_regex:
        return ("ok", res, mop.regex_rule)
    return ("ok", res)


ODDNAME_MOD = 8
ODD_NAMES = [("rule 100%s done.yaml", "dump%20of%20lib foo.s"), ("r{0}ule#1.yaml", "listing {name} #2.s"), ("r\u00e8gle.yaml", "d\u00e9sassembl\u00e9 (1).s"), ("rule%(x)s.yaml", "a%d.b%s.s"),
             ("rule;echo.yaml", "list&ing$HOME.s")]
SPELL_MOD = 4  # one generated rule document in four is written in another YAML spelling (the same document: it loads to the same object)
NOEOL_MOD = 8  # one listing in eight is written without the final newline / with blank lines after the last instruction


def _share_equal_items(doc):
    """A copy of the document in which mapping items of the pattern that are equal (and carry more than a bare name) are the same
    object, or None if there are none."""
    import copy

    doc = copy.deepcopy(doc)
    seen = []
    found = [False]

    def walk(node):
        if isinstance(node, list):
            for k, x in enumerate(node):
                if isinstance(x, dict) and x:
                    for y in seen:
                        if y == x:
                            node[k] = y
                            found[0] = True
                            break
                    else:
                        seen.append(x)
                        walk(x)
                else:
                    walk(x)
        elif isinstance(node, dict):
            for v in node.values():
                walk(v)

    if isinstance(doc, dict):
        walk(doc.get("pattern"))
    return doc if found[0] else None


class _HexTextLoader(yaml.SafeLoader):
    """What a rule file means: a hexadecimal scalar (0x10) is the text the rule says, not the YAML integer 16 (JASM reads its rule and
    macro files that way since F52; this is the harness's own statement of it, nothing is imported from the code under test)."""


_HexTextLoader.yaml_implicit_resolvers = {k_: [(t_, r_) for t_, r_ in v_ if t_ != "tag:yaml.org,2002:int"] for k_, v_ in yaml.SafeLoader.yaml_implicit_resolvers.items()}
_HexTextLoader.add_implicit_resolver("tag:yaml.org,2002:int", re.compile(r"^(?:[-+]?0b[0-1_]+|[-+]?0[0-7_]+|[-+]?(?:0|[1-9][0-9_]*)|[-+]?[1-9][0-9_]*(?::[0-5]?[0-9])+)$"), list("-+0123456789"))
HEXBARE_MOD = 3  # one generated rule document in three has its hexadecimal strings written the natural way: without quotes
_QUOTED_HEX = re.compile(r"""(?<=[\s\[,])(['"])(-?0x[0-9a-fA-F]+)\1(?=\s*(?:[,\]\}]|$))""", re.M)


def spelled_rule_text(doc):
    """_spelled_rule_text, and for one document in three every hexadecimal string value / list item without its quotes
    (`constant_offset: 0x10`, `movl: [0x10]`): the same rule."""
    text = _spelled_rule_text(doc)
    if isinstance(doc, str) or not HEXBARE_MOD or zlib.crc32(text.encode("utf-8", "replace")) % HEXBARE_MOD != 1:
        return text
    bare = _QUOTED_HEX.sub(lambda m_: m_.group(2), text)
    if bare == text:
        return text
    try:
        return bare if yaml.load(bare, Loader=_HexTextLoader) == doc else text
    except yaml.YAMLError:
        return text


def _spelled_rule_text(doc):
    """The rule file of a generated document: block style as a rule; for one document in four (chosen by its content) flow style,
    mixed style, an explicit document start with a comment in front, or a deep indentation.  Raw text is written as it is."""
    if isinstance(doc, str):
        return doc
    text = dump_yaml(doc)
    sel = zlib.crc32(text.encode("utf-8", "replace"))
    if SPELL_MOD and sel % 2 == 1:
        # an item that is written twice may be written once with a YAML anchor and used again through an alias (`- &id001 {...}` ...
        # `- *id001`): the loader then hands out the same object twice
        shared = _share_equal_items(doc)
        if shared is not None:
            alt = yaml.dump(shared, Dumper=yaml.SafeDumper, sort_keys=False, allow_unicode=True, default_flow_style=False)
            try:
                if "*id0" in alt and yaml.safe_load(alt) == doc:
                    return alt
            except yaml.YAMLError:
                pass
    if not SPELL_MOD or sel % SPELL_MOD != 2:
        return text
    kw = [dict(default_flow_style=True), dict(default_flow_style=None), dict(default_flow_style=False, explicit_start=True), dict(default_flow_style=False, indent=6, width=30),
          dict(default_flow_style=True, width=40)][(sel // SPELL_MOD) % 5]
    alt = yaml.dump(doc, Dumper=_Dumper, sort_keys=False, allow_unicode=True, **kw)
    if kw.get("explicit_start"):
        alt = "# rule written by hand\n" + alt + "...\n"
    try:
        same = yaml.safe_load(alt) == doc
    except yaml.YAMLError:
        same = False
    return alt if same else text


def match(doc, listing_text, mode="list", search="all", only_addr=False, macros=None, want_regex=False):
    """doc: python object (dumped as YAML) or raw YAML text; listing_text: objdump-format text."""
    s = scratch()
    rtext = spelled_rule_text(doc)
    # file names are the user's business: blanks, a percent sign, braces, a hash, non-ASCII letters (one call in eight, by content)
    odd = ODDNAME_MOD and zlib.crc32(rtext.encode("utf-8", "replace")) % ODDNAME_MOD == 5
    rname, lname = ODD_NAMES[zlib.crc32(rtext.encode("utf-8", "replace")) // 8 % len(ODD_NAMES)] if odd else ("rule.yaml", "listing.s")
    rp = s.write(rname, rtext)
    if NOEOL_MOD and isinstance(listing_text, str) and listing_text.endswith("\n"):
        # the end of the file is presentation: no newline after the last line, or blank lines after it
        sel_ = zlib.crc32(listing_text.encode("utf-8", "replace")) % NOEOL_MOD
        if sel_ == 3:
            listing_text = listing_text.rstrip("\n")
        elif sel_ == 5:
            listing_text = listing_text + "\n\n"
    if CRLF_MOD and isinstance(listing_text, str) and "\r" not in listing_text and zlib.crc32(listing_text.encode("utf-8", "replace")) % CRLF_MOD == 0:
        # the same listing as a tool on Windows would have saved it: line ends are presentation, the tree under test reads
        # listings with universal newlines (one listing in eight, chosen by its content, so every mode sees the same file)
        listing_text = listing_text.replace("\n", "\r\n")
        lp = s.path(lname)
        with open(lp, "w", newline="") as f:
            f.write(listing_text)
    else:
        lp = s.write(lname, listing_text)
    return match_files(rp, lp, mode=mode, search=search, only_addr=only_addr, macros=macros, want_regex=want_regex)


def stream_of(listing_text, config=None):
    """The stream string JASM builds for a listing (all_instructions_string)."""
    doc = make_doc(["zzzzzzzz"], config=config)
    return match(doc, listing_text, mode="str")


def compile_rule(doc, macros=None):
    s = scratch()
    rp = s.write("rule.yaml", spelled_rule_text(doc))
    try:
        y2r = Yaml2Regex(rp, macros_from_terminal=macros)
        rx = y2r.produce_regex()
        if REUSE_MOD and zlib.crc32(rule_text(doc).encode()) % REUSE_MOD == 1:
            # produce_regex() is a public entry point: asking the same compiler object again must give the same regex (C14: repeating
            # an operation gives the same result; holds on the pinned tree)
            rx2 = y2r.produce_regex()
            if rx2 != rx:
                return ("exc", "SecondCompilationOnSameInstanceDiffers", ("first=%r second=%r" % (rx[:120], rx2[:120])))
        return ("ok", rx)
    except (Exception, AssertionError) as exc:  # noqa: BLE001
        return classify_exc(exc)


def second_compilation(doc, macros=None):
    """For one rule in four (chosen by its text): compile it twice on the same Yaml2Regex object; -> None, or a description of the
    difference.  Exceptions are not reported here - every check sees them through its own call."""
    if not REUSE_MOD or zlib.crc32(rule_text(doc).encode()) % REUSE_MOD != 1:
        return None
    r = compile_rule(doc, macros=macros)
    if r[0] == "exc" and r[1] == "SecondCompilationOnSameInstanceDiffers":
        return r[2]
    return None


CONSOLE_SCRIPT = os.path.join(os.path.dirname(sys.executable), "jasm")


def cli(args, cwd, timeout=120, env_extra=None, entry="module", stdin_text=None):
    """entry: "module" = python -m jasm.main; "script" = the installed console script (a three-line stub that calls
    jasm.main.main()), run by the same interpreter with the tree under test first on the path."""
    e = dict(os.environ)
    e["PYTHONPATH"] = env.SRC
    e["PYTHONHASHSEED"] = "0"
    if env_extra:
        e.update(env_extra)
    head = [sys.executable, CONSOLE_SCRIPT] if entry == "script" and os.path.exists(CONSOLE_SCRIPT) else [sys.executable, "-m", "jasm.main"]
    p = subprocess.run([*head, *args], cwd=cwd, capture_output=True, text=True, timeout=timeout, env=e, **({"input": stdin_text} if stdin_text is not None else {"stdin": subprocess.DEVNULL}))
    return p.returncode, p.stdout, p.stderr
