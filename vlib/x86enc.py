"""Tiny x86-64 encoder: `mov`/`lea`/`add` between a 64-bit register and a memory operand k(a,b,c).

Only used as a *source* of authentic objdump lines with dense coverage of memory-operand shapes;
what objdump prints for the bytes is what the checks read.
"""
import struct

REG64 = ["rax", "rcx", "rdx", "rbx", "rsp", "rbp", "rsi", "rdi", "r8", "r9", "r10", "r11", "r12", "r13", "r14", "r15"]
REG32 = ["eax", "ecx", "edx", "ebx", "esp", "ebp", "esi", "edi", "r8d", "r9d", "r10d", "r11d", "r12d", "r13d", "r14d", "r15d"]
OPCODES = {"mov-load": 0x8B, "mov-store": 0x89, "lea": 0x8D, "add-load": 0x03, "cmp-store": 0x39}
# mnemonic -> (legacy prefix, opcode bytes, REX.W, register file) for the load form `op mem,reg` and the store form `op reg,mem`.
# The scalar-single SSE mnemonics end in the letters of a segment prefix (ss) and are 5-8 characters long: objdump pads short
# mnemonics to 6 columns and prints exactly one blank after longer ones.
LOAD_FORMS = {
    "mov": (b"", b"\x8b", True, "r"), "lea": (b"", b"\x8d", True, "r"), "add": (b"", b"\x03", True, "r"), "cmp": (b"", b"\x3b", True, "r"),
    "movss": (b"\xf3", b"\x0f\x10", False, "x"), "addss": (b"\xf3", b"\x0f\x58", False, "x"), "sqrtss": (b"\xf3", b"\x0f\x51", False, "x"),
    "rsqrtss": (b"\xf3", b"\x0f\x52", False, "x"), "comiss": (b"", b"\x0f\x2f", False, "x"), "ucomiss": (b"", b"\x0f\x2e", False, "x"),
    "cvtsd2ss": (b"\xf2", b"\x0f\x5a", False, "x"), "movsd": (b"\xf2", b"\x0f\x10", False, "x"), "movaps": (b"", b"\x0f\x28", False, "x"),
}
STORE_FORMS = {"mov": (b"", b"\x89", True, "r"), "add": (b"", b"\x01", True, "r"), "cmp": (b"", b"\x39", True, "r"), "movss": (b"\xf3", b"\x0f\x11", False, "x"),
               "movaps": (b"", b"\x0f\x29", False, "x")}


def reg_name(mn, n, store=False):
    """AT&T name of register operand n (0..15) of mnemonic mn."""
    form = (STORE_FORMS if store else LOAD_FORMS).get(mn) or LOAD_FORMS["mov"]
    return f"%xmm{n}" if form[3] == "x" else "%" + REG64[n]


def encode_mem(op, reg, base=None, index=None, scale=1, disp=0, addr32=False, rip=False, riz=False, mn=None):
    """reg/base/index: register numbers 0..15 (index != 4). Returns the instruction bytes.  mn: a mnemonic of LOAD_FORMS /
    STORE_FORMS (the direction is taken from op: '...-load' or '...-store'); None = the opcode table above."""
    assert index != 4
    R = (reg >> 3) & 1
    X = ((index or 0) >> 3) & 1
    B = ((base or 0) >> 3) & 1
    out = bytearray()
    if addr32:
        out.append(0x67)
    if mn is None:
        out.append(0x48 | (R << 2) | (X << 1) | B)
        out.append(OPCODES[op])
    else:
        prefix, opcode, rexw, _ = (STORE_FORMS if op.endswith("store") else LOAD_FORMS)[mn]
        out += prefix
        rex = (0x48 if rexw else 0x40) | (R << 2) | (X << 1) | B
        if rex != 0x40:
            out.append(rex)  # a REX byte without any bit set would be printed as a `rex` prefix word
        out += opcode
    r3 = reg & 7
    if rip:
        out.append((0 << 6) | (r3 << 3) | 5)
        out += struct.pack("<i", disp)
        return bytes(out)
    ss = {1: 0, 2: 1, 4: 2, 8: 3}[scale]
    # riz: a SIB byte although there is no index (objdump then prints the pseudo index register %riz / %eiz with the scale)
    need_sib = index is not None or base is None or (base & 7) == 4 or riz
    if base is None:
        # k(,b,c) : mod=0, SIB base=5, disp32
        out.append((0 << 6) | (r3 << 3) | 4)
        idx = 4 if index is None else (index & 7)
        out.append((ss << 6) | (idx << 3) | 5)
        out += struct.pack("<i", disp)
        return bytes(out)
    if disp == 0 and (base & 7) != 5:
        mod = 0
    elif -128 <= disp <= 127:
        mod = 1
    else:
        mod = 2
    if need_sib:
        out.append((mod << 6) | (r3 << 3) | 4)
        idx = 4 if index is None else (index & 7)
        out.append((ss << 6) | (idx << 3) | (base & 7))
    else:
        out.append((mod << 6) | (r3 << 3) | (base & 7))
    if mod == 1:
        out += struct.pack("<b", disp)
    elif mod == 2:
        out += struct.pack("<i", disp)
    return bytes(out)


def att_mem(base=None, index=None, scale=1, disp=0, addr32=False, rip=False, riz=False):
    """(a, b, c, k) as objdump is expected to spell them (k None when not printed)."""
    regs = REG32 if addr32 else REG64
    if rip:
        return ("%rip" if not addr32 else "%eip", None, None, hexs(disp))
    a = "%" + regs[base] if base is not None else None
    b = "%" + regs[index] if index is not None else None
    c = str(scale) if index is not None else None
    if riz and index is None and base is not None and not ((base & 7) == 4 and scale == 1):
        b, c = ("%eiz" if addr32 else "%riz"), str(scale)
    if base is None:
        k = hexs(disp)
    elif disp == 0 and (base & 7) != 5:
        k = None
    else:
        k = hexs(disp)
    return (a, b, c, k)


def hexs(v):
    return f"-0x{-v:x}" if v < 0 else f"0x{v:x}"
