"""Turn a generated 'code source' case into the listing objdump prints for it."""
from hypothesis import strategies as st

from . import jasm_io
from .elfw import disassemble_blob, disassemble_object
from .gen_bytes import build_object, code_chunks, expand, objects


@st.composite
def sources(draw, max_chunks=24):
    kind = draw(st.sampled_from(["blob64", "blob64", "blob64", "blob32", "object", "object", "blob16"]))
    if kind == "object":
        return {"src": "object", "obj": draw(objects())}
    mode = {"blob64": "x86-64", "blob32": "i386", "blob16": "i8086"}[kind]
    return {"src": "blob", "mode": mode, "chunks": draw(code_chunks(1, max_chunks))}


def source_tag(case):
    if case["src"] == "object":
        return f"object-elf{case['obj']['bits']}"
    return "blob-" + case["mode"]


def listing_for(case, sections=None):
    """-> (returncode, listing text, path of the binary that was disassembled)"""
    sc = jasm_io.scratch()
    if case["src"] == "object":
        path = sc.write("obj.o", build_object(case["obj"]))
        rc, out, err = disassemble_object(path, sections)
    else:
        path = sc.write("blob.bin", expand(case["chunks"]))
        rc, out, err = disassemble_blob(path, case["mode"])
    return rc, out, path
