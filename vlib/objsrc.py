"""Turn a generated 'code source' case into the listing objdump prints for it."""
from hypothesis import strategies as st

from . import jasm_io
from .elfw import disassemble_blob, disassemble_object
from .gen_bytes import build_object, code_chunks, expand, objects


# the ways objdump itself lays the same disassembly out: all bytes of an instruction on its line (-w, --insn-width=N, so byte
# columns of 8..15 bytes and no continuation lines), or no byte column at all (--no-show-raw-insn)
LAYOUT_ASSUMPTION = 'listings without the byte column (--no-show-raw-insn) are generated with function symbols only: under an STT_OBJECT symbol objdump prints a data dump whose ASCII column is all that is left there (`   0:\\tret` for 72 65 74) and no reader can tell it from an instruction line'
LAYOUT_RULE = 'in the layouts objdump itself offers: default (7 bytes per line + continuation lines), -w and --insn-width=8/11/15 (8-15 bytes on one line, no continuation lines), --no-show-raw-insn and -w --no-show-raw-insn (no byte column), -r and -w -r (relocation records of relocatable objects on lines of their own / appended to the instruction line)'
ALL_LAYOUTS = ["default", "default", "default", "default", "default", "wide", "insn-width-8", "insn-width-11", "insn-width-15", "no-raw", "no-raw", "wide-no-raw", "reloc", "wide-reloc", "wide-reloc", "wide-reloc"]


@st.composite
def sources(draw, max_chunks=24, layouts=("default",)):
    kind = draw(st.sampled_from(["blob64", "blob64", "blob64", "blob32", "object", "object", "blob16"]))
    layout = draw(st.sampled_from(list(layouts))) if len(layouts) > 1 else layouts[0]
    extra = {"layout": layout} if layout != "default" else {}
    if "reloc" in layout:
        kind = "object"  # relocation records exist in relocatable objects only
    if kind == "object":
        obj = draw(objects(want_relocs="reloc" in layout))
        if "no-raw" in layout:
            # objdump dumps the bytes under an STT_OBJECT symbol as data (hex + ASCII column); without the byte column only the ASCII
            # text is left (`   4:\t/`, `   0:\tret` for 72 65 74) and no reader can tell that from an instruction line: outside
            # what the text of a listing determines, so column-less listings are generated with function symbols only
            obj["symbols"] = [[s_[0], s_[1], s_[2], "func"] for s_ in obj["symbols"]]
        return {"src": "object", "obj": obj, **extra}
    mode = {"blob64": "x86-64", "blob32": "i386", "blob16": "i8086"}[kind]
    return {"src": "blob", "mode": mode, "chunks": draw(code_chunks(1, max_chunks)), **extra}


def source_tag(case):
    if case["src"] == "object":
        return f"object-elf{case['obj']['bits']}"
    return "blob-" + case["mode"]


def layout_tag(case):
    return "layout=" + case.get("layout", "default")


def listing_for(case, sections=None):
    """-> (returncode, listing text, path of the binary that was disassembled)"""
    sc = jasm_io.scratch()
    if case["src"] == "object":
        path = sc.write("obj.o", build_object(case["obj"]))
        rc, out, err = disassemble_object(path, sections, layout=case.get("layout", "default"))
    else:
        path = sc.write("blob.bin", expand(case["chunks"]))
        rc, out, err = disassemble_blob(path, case["mode"], layout=case.get("layout", "default"))
    return rc, out, path


def contain(sc, path, case):
    """The same object in another container objdump accepts: COFF (.obj, what objcopy / MSVC-style toolchains emit), a regular or thin
    `ar` archive (deterministic mode: no timestamps).  -> (path, tag); the ELF itself if the tool refuses the object."""
    import os
    import subprocess

    kind = case.get("container", "elf")
    if kind == "elf":
        return path, "container=elf"
    d = os.path.dirname(path)
    if kind in ("coff", "bigobj"):
        target = ("pe-bigobj-x86-64" if kind == "bigobj" else "pe-x86-64") if case["obj"]["bits"] == 64 else "pe-i386"
        out = os.path.join(d, "contained.obj")
        r = subprocess.run(["objcopy", "-O", target, path, out], capture_output=True, text=True, cwd=d)
    else:
        out = os.path.join(d, "contained.a")
        if os.path.exists(out):
            os.unlink(out)
        members = [os.path.basename(path)]
        if kind == "ar-two":
            second = "second_" + os.path.basename(path)
            with open(path, "rb") as f, open(os.path.join(d, second), "wb") as g:
                g.write(f.read())
            members.append(second)
        r = subprocess.run(["ar", "rcTD" if kind == "thin-ar" else "rcD", "contained.a", *members], capture_output=True, text=True, cwd=d)
    if r.returncode != 0 or not os.path.exists(out):
        return path, "container=elf-after-" + kind + "-refused"
    return out, "container=" + kind
