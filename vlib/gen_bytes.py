"""Code-byte strategies for the parser-side properties: 'ask objdump what it prints'.

Chunks are either Hypothesis-drawn raw bytes, PRNG-expanded blobs whose seed and length are Hypothesis
draws (so every case is still a pure function of the drawn values and replays from its JSON), or
encodings from a table chosen to reach prefixes, > 7 byte instructions (continuation lines), zero runs
('...'), (bad), rip-relative comments, x87/AVX/AVX-512 operands, branch hints, 16-bit addressing.
"""
import random

from hypothesis import strategies as st

TABLE = {
    "push-mov": "55 48 89 e5",
    "movabs": "48 b8 88 77 66 55 44 33 22 11",
    "nopw-long": "66 66 2e 0f 1f 84 00 00 00 00 00",
    "data16-run": "66 " * 15 + "90",
    "zeros": "00 " * 48,
    "hint-pn": "2e 75 c4",
    "hint-pt": "3e 7e 10",
    "addr16": "67 85 02",
    "vblendvpd": "c4 e3 75 4b c2 30",
    "vfmadd": "c4 e2 f1 b9 c2",
    "ud2": "0f 0b",
    "repz-ret": "f3 c3",
    "lock-cmpxchg": "f0 48 0f b1 0a",
    "fs-load": "64 48 8b 04 25 28 00 00 00",
    "call": "e8 10 00 00 00",
    "jmp-short": "eb fe",
    "jmp-reg": "ff e0",
    "jmp-rip": "ff 25 00 10 00 00",
    "call-sib": "ff 14 c3",
    "mov-rip": "48 8b 05 34 12 00 00",
    "lea-sib": "48 8d 44 8b 10",
    "x87": "d8 c1 dc c1",
    "avx512": "62 f1 7c 49 58 c1",
    "gs-sib": "65 48 8b 04 f0",
    "movs": "f3 a4",
    "bad": "06 07 61",
    "ret": "c3",
    "leave": "c9",
    "cmov": "48 0f 44 c3",
    "imul3": "6b c3 10",
    "shld": "48 0f a4 d8 05",
    "jne-near": "0f 85 00 01 00 00",
    "tail-66": "66",
    "enter": "c8 10 00 01",
    "xlat": "d7",
    "notrack": "3e ff e0",
    "bnd": "f2 e9 00 00 00 00",
    "mpx": "0f 1a 04 18",
    "vsib": "c4 e2 f9 92 04 08",
    "d16-hint": "66 2e 70 05",
    "hint-d16": "2e 66 70 05",
    "d16-hint-pt": "66 3e 7e 10",
    "evex-mask-store": "62 f1 7c 49 11 0c 98",
    "evex-bcast": "62 f1 7c 58 58 04 98",
    "evex-mask-disp": "62 f1 7c 49 11 4c 98 01",
    "evex-zmask": "62 f1 7c c9 10 0c 98",
    "movabs-mem": "48 a1 88 77 66 55 44 33 22 11",
    "mov-imm-disp32": "48 c7 84 98 00 01 00 00 78 56 34 12",
    "addr32-sib": "67 42 8b 04 a8",
    "r12d-index": "67 43 8b 44 a0 10",
    "seg-sib": "64 48 8b 04 f0",
    "call-far": "9a 78 56 34 12 34 12",
    "ljmp-mem": "ff 2c 25 00 10 00 00",
    "vex-vnni": "c4 e2 6d 50 d9",          # printed with the `{vex}` pseudo prefix: instruction text that does not start with a letter
    "vex-vnni-mem": "c4 e2 6d 50 5c 88 10",
    "tail-62": "62",                        # `.byte 0x62` when it ends the section
    "rex-alone": "40",
    # segment override + base/index/scale + EVEX decoration in ONE operand: %fs:0x1(%rax,%rbx,1){%k1}, %gs:(%rax,%rbx,4){1to16}
    "fs-evex-mask-disp": "64 62 f1 7f 49 7f 44 18 01",
    "fs-evex-mask-store": "64 62 f1 7c 49 11 0c 98",
    "gs-evex-bcast": "65 62 f1 7c 58 58 04 98",
    # mnemonics that end in the letters of a prefix word (ss, es, cs ...) with a memory operand that starts with `(`
    "sqrtss-mem": "f3 0f 51 00", "comiss-sib": "0f 2f 04 98", "vmovss-sib": "c5 fa 10 04 98", "vbroadcastss-mem": "c4 e2 7d 18 00", "cvtsd2ss-mem": "f2 0f 5a 03",
    "les-mem": "c4 00", "scas": "af", "lods": "ad",
    # MPX with an invalid bound register: two parenthesised groups in the operand column, the second one with commas
    "bndmov-bad-sib": "66 0f 1b 24 18", "bndstx-bad-sib": "0f 1b 64 18 10", "bndmov-sib-bad": "66 0f 1a 24 18", "bndcl-bad": "f3 0f 1a 24 18",
}
TABLE = {k: bytes.fromhex(v) for k, v in TABLE.items()}


@st.composite
def chunk(draw):
    kind = draw(st.sampled_from(["table", "table", "table", "prng", "prng", "raw"]))
    if kind == "table":
        name = draw(st.sampled_from(sorted(TABLE)))
        return {"t": name}
    if kind == "prng":
        return {"p": draw(st.integers(0, 2**32 - 1)), "n": draw(st.sampled_from([8, 16, 32, 64, 128, 256]))}
    return {"r": draw(st.binary(min_size=1, max_size=12)).hex()}


def expand(chunks):
    out = b""
    for c in chunks:
        if "t" in c:
            out += TABLE[c["t"]]
        elif "p" in c:
            out += random.Random(c["p"]).randbytes(c["n"])
        else:
            out += bytes.fromhex(c["r"])
    return out


def code_chunks(min_chunks=1, max_chunks=24):
    return st.lists(chunk(), min_size=min_chunks, max_size=max_chunks)


SECTION_NAMES = [".text", ".text.hot", ".text.unlikely", ".init", ".fini", ".plt", ".plt.got", ".data", ".rodata", "my_sec", ".text.startup", "INIT", "PAGE", ".text.ISR", "My_Code", "cold code", "it's"]


@st.composite
def objects(draw, max_sections=5, want_relocs=False):
    """A relocatable object description: {'bits': 64|32, 'sections': [[name, chunks, exec]], 'symbols': [[name, secidx, value, type]]}"""
    bits = 64 if want_relocs else draw(st.sampled_from([64, 64, 64, 32]))
    nsec = draw(st.integers(1, max_sections))
    names = draw(st.permutations(SECTION_NAMES))[:nsec]
    sections = []
    for q, nm in enumerate(names):
        ex = not nm.startswith((".data", ".rodata")) or draw(st.integers(0, 5)) == 0
        if q == 0:
            ex = True
        sections.append([nm, draw(code_chunks(1, 8)), ex])
    symbols = []
    for q in range(draw(st.integers(0, 5))):
        si = draw(st.integers(1, nsec))
        size = len(expand(sections[si - 1][1]))
        # symbol names are free text: short ones, a name of a thousand-odd characters (mangled C++), names that read like the
        # listing's own title / section lines
        nm = f"sym{q}" if draw(st.integers(0, 5)) else draw(st.sampled_from(["_ZN" + "4aaaa" * 260 + "E", "log file format error", "go.string.unknown file format", "Disassembly of section .text", "a b", "x:",
                                                                                  # what objdump -C prints for C++ symbols: '<', '>', blanks, commas, parentheses inside the name
                                                                                  "sum(std::vector<int, std::allocator<int> > const&)", "less(std::pair<int, int> const&, std::pair<int, int> const&)",
                                                                                  "operator> (A const&, B const&)", "std::map<K, V>::find(K const&)", "f<g<h> >::operator()(int) const"]))
        symbols.append([nm, si, draw(st.integers(0, max(0, size - 1))), draw(st.sampled_from(["func", "func", "func", "object"]))])
    desc = {"bits": bits, "sections": sections, "symbols": symbols}
    if bits == 64 and (want_relocs or draw(st.integers(0, 1)) == 0):
        if not symbols:
            symbols.append(["ext0", 1, 0, "func"])
        # relocations against the symbols (calls to externals, rip-relative data references): shown by `objdump -r`
        rl = []
        for _ in range(draw(st.integers(1, 6))):
            si = draw(st.integers(1, nsec))
            size = len(expand(sections[si - 1][1]))
            rl.append([si, draw(st.integers(0, max(0, size - 1))), draw(st.integers(1, len(symbols))), draw(st.sampled_from([2, 4, 1, 10, 11])), draw(st.sampled_from([-4, 0, 8]))])
        desc["relocs"] = sorted(rl)
    if "relocs" not in desc and draw(st.integers(0, 2)) == 0:
        # a linked file (executable or shared object) instead of a relocatable one: every section at a load address, so addresses
        # do not restart per section, run to 8 / 16 digits, and branch targets are absolute
        base = draw(st.sampled_from([0x1000, 0x401000, 0x7F12345000, 0xFFFFFFFF81000000, 0xFFFFFFFFFFFFF000] if bits == 64 else [0x1000, 0x8048000, 0xC0100000, 0xFFFFF000]))
        desc["linked"] = {"etype": draw(st.sampled_from([2, 2, 3])), "base": base, "gap": draw(st.sampled_from([0, 0x10, 0x1000]))}
    if draw(st.integers(0, 5)) == 0:
        # cosmetic metadata objdump complains about on stderr ("warning: ... corrupt GNU_PROPERTY_TYPE") while it still exits 0
        # and prints the complete disassembly
        desc["bad_note"] = draw(st.sampled_from(["corrupt-size", "short", "unsupported-type"]))
    return desc


def build_object(desc):
    import struct

    from .elfw import make_elf

    secs = [(nm, expand(chunks), ex) for nm, chunks, ex in desc["sections"]]
    if desc.get("bad_note"):
        d = {"corrupt-size": struct.pack("<II", 0xC0000002, 8) + b"\x03\0\0\0", "short": b"\x01\x02\x03",
             "unsupported-type": struct.pack("<II", 5, 4) + b"\1\0\0\0\0\0\0\0"}[desc["bad_note"]]
        secs.append((".note.gnu.property", struct.pack("<III", 4, len(d), 5) + b"GNU\0" + d, False, 7))
    addrs, etype = None, 1
    if desc.get("linked"):
        ln = desc["linked"]
        etype = ln["etype"]
        a = ln["base"]
        addrs = []
        for sec in secs:
            addrs.append(a & ((1 << desc["bits"]) - 1))
            a += ((len(sec[1]) + 15) & ~15) + ln["gap"]
    return make_elf(secs, [tuple(s) for s in desc["symbols"]], bits=desc["bits"], addrs=addrs, etype=etype, relocs=[tuple(r) for r in desc.get("relocs", [])])
