"""Signature predicates for open known findings (DESIGN 1.1).

Each predicate takes (case, deviation, **params) and returns True only if the deviation is the
listed finding: a syntactic feature of the input that pins the call site AND the observed
deviation agreeing with the finding's defect model.  Anything else on the same input shape is a
new violation.
"""


def undefined_macro_without_definitions(case, deviation):
    """F10b: an undefined @macro in a rule for which NO macro definition is supplied (neither in the file nor through
    extra files) is kept as a mnemonic and the rule silently does not match.  Pinned by the repository's own test
    `test_all_patterns[lucia_test no macros]` (expects False for a rule using @any without macros), so it cannot be repaired
    without editing that test.  Only the C17 fault cell 'undefined-macro-no-defs' is covered; any other silent miss is new."""
    return case.get("fault") == "undefined-macro-no-defs" and deviation.get("kind") == "silent-miss"
