"""Signature predicates for open known findings (DESIGN 1.1).

Each predicate takes (case, deviation, **params) and returns True only if the deviation is the
listed finding: a syntactic feature of the input that pins the call site AND the observed
deviation agreeing with the finding's defect model.  Anything else on the same input shape is a
new violation.
"""
