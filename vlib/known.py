"""Signature predicates for open known findings (DESIGN 1.1).

Each predicate takes (case, deviation, **params) and returns True only if the deviation is the
listed finding: a syntactic feature of the input that pins the call site AND the observed
deviation agreeing with the finding's defect model.  Anything else on the same input shape is a
new violation.
"""


def undefined_macro_without_definitions(case, deviation):
    """F10b: an undefined @macro in a rule for which NO macro definition is supplied (neither in the file nor through
    extra files) is kept as a mnemonic and the rule silently does not match.  Pinned by the repository's own test
    `test_all_patterns[lucia_test no macros]` (expects False for a rule using @any without macros), so it cannot be repaired
    without editing that test.  Only the C17 fault cell 'undefined-macro-no-defs' is covered; any other silent miss is new."""
    return case.get("fault") == "undefined-macro-no-defs" and deviation.get("kind") == "silent-miss"


def prefixed_instruction_operands_dropped(case, deviation):
    """F15: an instruction that objdump prints with a prefix word in front of the mnemonic (lock addl $0x1,(%rax); rep stos ...;
    bnd call ...; cs nopw ...) reaches the stream as <prefix>,<next word>, - the prefix is taken for the mnemonic, the next word
    (the real mnemonic, or a second prefix) for the operand string (so `jo,pn` becomes two operands), and the real operands are
    gone.  Only this exact shape is covered; a prefixed line that is dropped, split differently or normalised wrongly is a new
    violation."""
    if deviation.get("kind") != "prefixed-instruction-loses-operands" or deviation.get("mnemonic_in_stream") != deviation.get("prefix"):
        return False
    pieces = str(deviation.get("following_word")).split(",")
    got = deviation.get("operands_in_stream")
    if not isinstance(got, list) or len(got) != len(pieces):
        return False
    # the word went through the operand normaliser like an operand: `(bad)` has the shape (a) and comes out as [bad]
    return all(g == p_ or (p_.startswith("(") and p_.endswith(")") and g == "[" + p_[1:-1] + "]") for g, p_ in zip(got, pieces))


def non_utf8_symbol_name_decode_error(case, deviation):
    """F24: a listing whose only non-UTF-8 bytes sit in a symbol name (label line / <name+off> annotation, where objdump prints ELF
    symbol names byte for byte) is rejected as a whole with UnicodeDecodeError.  Only that exception on C08's substituted-name
    listing is covered; a stream that differs from the one of the untouched listing, or any other failure, is a new violation."""
    err = deviation.get("error") or []
    return deviation.get("kind") == "fails-on-non-utf8-symbol-name" and len(err) >= 1 and err[0] == "UnicodeDecodeError"

