"""Minimal ELF64/ELF32 relocatable-object writer and objdump driver (no assembler needed).

objdump is an *input source* for the parser-side properties: the harness asks it to print
what it prints for generated code bytes.
"""
import os
import struct
import subprocess

OBJDUMP = "objdump"


def make_elf(sections, symbols=(), bits=64, addrs=None, etype=1, relocs=()):
    """sections: list of (name, bytes, executable: bool); symbols: (name, section index 1-based, value, 'func'|'object').
    Returns the bytes of an ET_REL object for x86-64 (bits=64) or i386 (bits=32).  With `addrs` (one virtual address per section)
    and etype 2 / 3 the result is what a linked executable / shared object looks like to `objdump -d`: sections at their load
    addresses, symbol values absolute (no program headers: objdump does not need them to disassemble).
    relocs (ELF64 only): (section index 1-based, offset, symbol index 1-based, relocation type, addend) -> one .rela<name> section per
    section that has any; `objdump -r` prints them between / after the instruction lines."""
    shstr = b"\0"

    def add(n):
        nonlocal shstr
        off = len(shstr)
        shstr += n.encode() + b"\0"
        return off

    is64 = bits == 64
    ehsize = 64 if is64 else 52
    secs = []
    body = b""
    for sec in sections:
        n, data, ex = sec[0], sec[1], sec[2]
        sh_type = sec[3] if len(sec) > 3 else 1  # optional 4th element: section type (1 PROGBITS, 7 NOTE, ...)
        nm = add(n)
        pad = (-(ehsize + len(body))) % 16
        body += b"\0" * pad
        secs.append((nm, sh_type, (2 | 4) if ex else (2 | 1), ehsize + len(body), len(data), 8 if sh_type == 7 else 16))
        body += data
    strtab = b"\0"
    if is64:
        syms = struct.pack("<IBBHQQ", 0, 0, 0, 0, 0, 0)
    else:
        syms = struct.pack("<IIIBBH", 0, 0, 0, 0, 0, 0)
    for sym in symbols:
        sn, si, val = sym[0], sym[1], sym[2]
        typ = 1 if (len(sym) > 3 and sym[3] == "object") else 2
        so = len(strtab)
        strtab += sn.encode() + b"\0"
        if addrs is not None and etype != 1 and 1 <= si <= len(addrs):
            val = (addrs[si - 1] + val) & ((1 << bits) - 1)
        if is64:
            syms += struct.pack("<IBBHQQ", so, (1 << 4) | typ, 0, si, val, 0)
        else:
            syms += struct.pack("<IIIBBH", so, val, 0, (1 << 4) | typ, 0, si)
    rela = {}
    if is64:
        for (si, off, symi, rtyp, addend) in relocs:
            rela.setdefault(si, b"")
            rela[si] += struct.pack("<QQq", off, (symi << 32) | rtyp, addend)
    rela_names = {si: add(".rela" + sections[si - 1][0]) for si in sorted(rela)}
    n_sym, n_str, n_shstr = add(".symtab"), add(".strtab"), add(".shstrtab")
    body += b"\0" * ((-(ehsize + len(body))) % 8)
    symoff = ehsize + len(body)
    body += syms
    stroff = ehsize + len(body)
    body += strtab
    shstroff = ehsize + len(body)
    body += shstr
    body += b"\0" * ((-(ehsize + len(body))) % 8)
    rela_offs = {}
    for si in sorted(rela):
        rela_offs[si] = ehsize + len(body)
        body += rela[si]
    shoff = ehsize + len(body)
    nsec = len(secs)
    if is64:
        fmt = "<IIQQQQIIQQ"
        sh = struct.pack(fmt, 0, 0, 0, 0, 0, 0, 0, 0, 0, 0)
        for q, (nm, typ, flags, o, sz, al) in enumerate(secs):
            sh += struct.pack(fmt, nm, typ, flags, addrs[q] if addrs is not None and q < len(addrs) else 0, o, sz, 0, 0, al, 0)
        sh += struct.pack(fmt, n_sym, 2, 0, 0, symoff, len(syms), nsec + 2, 1, 8, 24)
        sh += struct.pack(fmt, n_str, 3, 0, 0, stroff, len(strtab), 0, 0, 1, 0)
        sh += struct.pack(fmt, n_shstr, 3, 0, 0, shstroff, len(shstr), 0, 0, 1, 0)
        for si in sorted(rela):
            # SHT_RELA, SHF_INFO_LINK; link = the symbol table, info = the section the relocations apply to
            sh += struct.pack(fmt, rela_names[si], 4, 0x40, 0, rela_offs[si], len(rela[si]), nsec + 1, si, 8, 24)
        eh = b"\x7fELF" + bytes([2, 1, 1, 0]) + b"\0" * 8 + struct.pack("<HHIQQQIHHHHHH", etype, 62, 1, 0, 0, shoff, 0, 64, 0, 0, 64, nsec + 4 + len(rela), nsec + 3)
    else:
        fmt = "<IIIIIIIIII"
        sh = struct.pack(fmt, 0, 0, 0, 0, 0, 0, 0, 0, 0, 0)
        for q, (nm, typ, flags, o, sz, al) in enumerate(secs):
            sh += struct.pack(fmt, nm, typ, flags, addrs[q] if addrs is not None and q < len(addrs) else 0, o, sz, 0, 0, min(al, 4) if typ == 7 else al, 0)
        sh += struct.pack(fmt, n_sym, 2, 0, 0, symoff, len(syms), nsec + 2, 1, 4, 16)
        sh += struct.pack(fmt, n_str, 3, 0, 0, stroff, len(strtab), 0, 0, 1, 0)
        sh += struct.pack(fmt, n_shstr, 3, 0, 0, shstroff, len(shstr), 0, 0, 1, 0)
        eh = b"\x7fELF" + bytes([1, 1, 1, 0]) + b"\0" * 8 + struct.pack("<HHIIIIIHHHHHH", etype, 3, 1, 0, 0, shoff, 0, 52, 0, 0, 40, nsec + 4, nsec + 3)
    return eh + body + sh


HEX_FILE_NAMES = ["9e107d9d372bb6826bd81d3542a419d6", "cafe", "dd", "ed", "a", "0badc0de", "DEADBEEF"]


def run_objdump(args, timeout=120):
    """-> (returncode, stdout, stderr).  One file in five is handed to objdump the way samples are stored: under a bare name made of
    hexadecimal digits only (an MD5, `cafe`), from its directory - the title line of the listing then reads `cafe:     file format ...`."""
    import os
    import zlib

    cwd = None
    path = args[-1] if args else None
    if isinstance(path, str) and os.path.isfile(path) and os.path.isabs(path):
        with open(path, "rb") as f:
            h = zlib.crc32(f.read())
        if h % 5 == 0:
            cwd = os.path.dirname(path)
            bare = HEX_FILE_NAMES[h // 5 % len(HEX_FILE_NAMES)]
            twin = os.path.join(cwd, bare)
            if os.path.lexists(twin):
                os.unlink(twin)
            try:
                os.link(path, twin)
            except OSError:  # a file system without hard links
                import shutil

                shutil.copyfile(path, twin)
            args = list(args[:-1]) + [bare]
    p = subprocess.run([OBJDUMP, *args], capture_output=True, text=True, timeout=timeout, cwd=cwd)
    return p.returncode, p.stdout, p.stderr


LAYOUTS = {"default": [], "wide": ["-w"], "insn-width-8": ["--insn-width=8"], "insn-width-11": ["--insn-width=11"], "insn-width-15": ["--insn-width=15"],
           "no-raw": ["--no-show-raw-insn"], "wide-no-raw": ["-w", "--no-show-raw-insn"],
           # relocation records: on lines of their own between the instruction lines (-r), or appended to the instruction line (-w -r)
           "reloc": ["-r"], "wide-reloc": ["-w", "-r"]}


def disassemble_blob(path, mode="x86-64", layout="default"):
    m = {"x86-64": "i386:x86-64", "i386": "i386", "i8086": "i8086"}[mode]
    return run_objdump(["-D", "-b", "binary", "-m", m, "-M", "att", *LAYOUTS[layout], path])


def disassemble_object(path, sections=None, layout="default"):
    args = ["-d", "-M", "att", *LAYOUTS[layout]]
    for s in sections or []:
        args += ["-j", s]
    return run_objdump(args + [path])
