"""Coverage-guided stage: libFuzzer (atheris) drives a property's Hypothesis strategy, the oracle sits inside the target.

  python -m vlib.cgf <props module> <tier> <seed> <worker> <runs> <outdir>

* `atheris.instrument_imports(include=["jasm"])` wraps the first import of JASM, so edge coverage of JASM's own Python code
  (pattern compiler, macro expander, line/operand parser, consumer) is what libFuzzer maximises; the harness, Hypothesis,
  `re`/`regex` and PyYAML are not instrumented.
* The fuzz target is `given(prop.strategy(tier))(body).hypothesis.fuzz_one_input`: libFuzzer's bytes are the choice
  sequence of the property's own generator, so every input is inside the property's domain (no false alarms from
  malformed listings or rules) and a saved input replays through the same generator.
* `body` is the campaign body of runner.py: evaluate the case with the property's oracle, count classes, swallow
  deviations covered by an open known finding, and on any other deviation write the replay file and leave with status 9
  (libFuzzer would otherwise report a Python exception as a crash and lose the structured case).
* Determinism: `-seed` is derived from VERIF_SEED and the worker index and `-runs` bounds the campaign; libFuzzer's
  schedule is pinned only approximately by that, the saved replay file is the reproducible unit.  No time limits.

Statistics are flushed to <outdir>/stats_<worker>.json every 20 evaluations (atheris never returns from Fuzz()).
"""
import importlib
import json
import os
import sys
from collections import Counter

DEPS = os.path.join(os.path.dirname(os.path.dirname(os.path.abspath(__file__))), ".deps")


def _fix_bytestring_provider():
    """hypothesis 6.168: BytestringProvider.draw_integer draws bit_length(max - min) bits and then tests
    min <= value <= max WITHOUT adding min, so integers(2, 3) (values 0/1 only) rejects for ever and every buffer ends as an
    overrun - any strategy containing such a draw is unreachable through fuzz_one_input.  Same scheme, offset by min."""
    from hypothesis.internal.conjecture.providers import BytestringProvider

    def draw_integer(self, min_value=None, max_value=None, *, weights=None, shrink_towards=0):
        if min_value is None and max_value is None:
            min_value, max_value = -(2 ** 127), 2 ** 127 - 1
        elif min_value is None:
            min_value = max_value - 2 ** 64
        elif max_value is None:
            max_value = min_value + 2 ** 64
        if min_value == max_value:
            return min_value
        span = max_value - min_value
        bits = span.bit_length()
        value = self._draw_bits(bits)
        while value > span:
            value = self._draw_bits(bits)
        return min_value + value

    BytestringProvider.draw_integer = draw_integer


def main(argv):
    prop_name, tier, seed, worker, runs, outdir = argv[0], argv[1], int(argv[2]), int(argv[3]), int(argv[4]), argv[5]
    os.environ["VERIF_TIER"] = tier
    os.environ.setdefault("PYTHONHASHSEED", "0")
    sys.path.insert(0, os.path.dirname(os.path.dirname(os.path.abspath(__file__))))
    sys.path.append(DEPS)
    import atheris

    with atheris.instrument_imports(include=["jasm"], enable_loader_override=False):
        from vlib import env  # noqa: F401  (imports jasm from the tree under test)
        from vlib import jasm_io  # noqa: F401
        prop = importlib.import_module(f"props.{prop_name}")
    from hypothesis import HealthCheck, Phase, given, settings

    _fix_bytestring_provider()
    from vlib import runner
    from vlib.model import digest, hexdigest

    opens = runner.open_findings(prop.ID)
    st = {"evaluations": 0, "subcases": 0, "tags": Counter(), "nontrivial": 0, "hashes": set(), "inconclusive": 0, "excluded_known": Counter(), "violation": None, "error": None}
    stats_path = os.path.join(outdir, f"stats_{worker}.json")

    def flush():
        tmp = stats_path + ".tmp"
        with open(tmp, "w") as f:
            json.dump({"evaluations": st["evaluations"], "subcases": st["subcases"], "tags": dict(st["tags"]), "nontrivial": st["nontrivial"], "hashes": sorted(st["hashes"]),
                       "inconclusive": st["inconclusive"], "excluded_known": dict(st["excluded_known"]), "violation": st["violation"], "error": st["error"]}, f, default=str)
        os.replace(tmp, stats_path)

    def body(case):
        try:
            ev = prop.evaluate(case)
        except BaseException as exc:  # noqa: BLE001 - a harness error must not look like a libFuzzer crash of JASM
            import traceback

            st["error"] = "".join(traceback.format_exception(type(exc), exc, exc.__traceback__))[-3000:]
            flush()
            os._exit(8)
        st["evaluations"] += 1
        st["subcases"] += ev.subcases
        st["tags"].update(ev.tags)
        st["inconclusive"] += ev.inconclusive
        if ev.nontrivial:
            st["nontrivial"] += 1
            for k in (ev.keys if ev.keys is not None else [case]):
                st["hashes"].add(digest(k).hex())
        for d in ev.deviations:
            kid = runner.classify_known(prop, case, d, opens)
            if kid is not None:
                st["excluded_known"][kid] += 1
                continue
            st["violation"] = {"case": case, "deviation": dict(d, found_by="coverage-guided stage (atheris/libFuzzer)")}
            flush()
            os._exit(9)
        if st["evaluations"] % 20 == 0:
            flush()

    test = given(prop.strategy(tier))(body)
    test = settings(database=None, deadline=None, derandomize=False, print_blob=False, suppress_health_check=list(HealthCheck), phases=[Phase.generate])(test)
    corpus = os.path.join(outdir, f"corpus_{worker}")
    os.makedirs(corpus, exist_ok=True)
    # Hypothesis rejects buffers that are too short for the strategy or that run into an assume(), and libFuzzer starts
    # from the empty input: screen pseudo-random buffers (a pure function of seed, worker and index; hashlib, no RNG state)
    # through the target itself and seed the corpus with the canonical form of those the generator accepts
    import hashlib

    fuzz = test.hypothesis.fuzz_one_input
    kept = 0
    for q in range(600):
        n = (256, 1024, 4096, 16384)[q % 4]
        blob = b"".join(hashlib.sha256(b"%d/%d/%d/%d" % (seed, worker, q, i)).digest() for i in range(n // 32))
        canon_buf = fuzz(blob)
        if canon_buf is not None:
            with open(os.path.join(corpus, f"seed_{q}"), "wb") as f:
                f.write(bytes(canon_buf))
            kept += 1
            if kept >= 12:
                break
    st["tags"]["cgf-seed-inputs"] = kept
    flush()
    args = [sys.argv[0], f"-runs={runs}", f"-seed={(seed * 1000003 + worker * 7919 + 29) % (2 ** 31 - 1) or 1}", "-max_len=65536", "-len_control=0", "-print_final_stats=1", "-verbosity=1", corpus]
    atheris.Setup(args, test.hypothesis.fuzz_one_input)
    atheris.Fuzz()


if __name__ == "__main__":
    main(sys.argv[1:])
