"""Independent reading of objdump's AT&T line format and the operand normal form of C09.

Nothing here is derived from JASM's parser: the line classifier follows objdump's printing
(`<spaces>addr:\\t<hex bytes padded>\\t<text>`; byte-continuation lines carry only the byte column),
the normaliser follows the statement of C09.
"""
import re

INST_LINE = re.compile(r"^\s*([0-9a-f]+):\t((?:[0-9a-f]{2} )+)\s*\t(\S.*)$")
CONT_LINE = re.compile(r"^\s*([0-9a-f]+):\t((?:[0-9a-f]{2} ?)+)\s*$")
# --no-show-raw-insn: the text follows the address directly; what follows the tab is then never a lone pair of hex digits (no
# x86 mnemonic or prefix is two hex letters), which is what tells it from a byte-continuation line of the default layout
NORAW_LINE = re.compile(r"^\s*([0-9a-f]+):\t(?![0-9a-f]{2}(?:[ \t]|$))(\S.*)$")
LABEL_LINE = re.compile(r"^[0-9a-f]+ <.*>:$")

GPR64 = ["rax", "rbx", "rcx", "rdx", "rsi", "rdi", "rbp", "rsp"] + [f"r{i}" for i in range(8, 16)]
GPR32 = ["eax", "ebx", "ecx", "edx", "esi", "edi", "ebp", "esp"] + [f"r{i}d" for i in range(8, 16)]
GPR16 = ["ax", "bx", "cx", "dx", "si", "di", "bp", "sp"] + [f"r{i}w" for i in range(8, 16)]
GPR8 = ["al", "bl", "cl", "dl", "sil", "dil", "bpl", "spl", "ah", "bh", "ch", "dh"] + [f"r{i}b" for i in range(8, 16)]
GPRS = set(GPR64 + GPR32 + GPR16 + GPR8 + ["rip", "eip"])


def classify_line(line):
    """-> ('inst', addr, text) | ('cont', addr) | ('other',)"""
    m = INST_LINE.match(line)
    if m:
        return ("inst", m.group(1), m.group(3))
    m = CONT_LINE.match(line)
    if m:
        return ("cont", m.group(1))
    m = NORAW_LINE.match(line)
    if m:
        return ("inst", m.group(1), m.group(2))
    return ("other",)


def instruction_text(text):
    """The instruction itself: objdump -w -r appends the relocation record to the line after a TAB (`mov %rax,%rcx<TAB>a: R_X86_64_32<TAB>foo`);
    inside the instruction text (mnemonic, blanks, operands, blanks, annotation or comment) there is no TAB."""
    return text.split("\t")[0].rstrip()


def expected_mnemonics(text):
    """The acceptable spellings of 'that line's mnemonic' (first token of the instruction text) after the
    documented rewrites: a `data16 ` prefix is dropped, `(bad)` may be spelled `bad`, and a branch-hint suffix
    (`jne,pn`, `jle,pt`) is not part of the mnemonic (the comma is the stream's field separator, C10)."""
    t = instruction_text(text).replace("data16 ", "")
    tok = t.split(" ")[0] if t else ""
    out = {tok}
    if tok == "(bad)":
        out.add("bad")
    m = re.match(r"^([a-z]+),p[nt]$", tok)
    if m:
        out = {m.group(1)}
    return out


def instruction_lines(listing_text):
    """[(addr, text)] for every disassembled instruction line, in file order."""
    out = []
    for ln in listing_text.split("\n"):
        c = classify_line(ln)
        if c[0] == "inst":
            out.append((c[1], c[2]))
    return out


PREFIX_WORDS = {"lock", "rep", "repz", "repnz", "repe", "repne", "bnd", "notrack", "cs", "ds", "es", "fs", "gs", "ss", "addr16", "addr32", "data16", "data32",
                "xacquire", "xrelease", "rex"}


def line_operand_count(text):
    """Number of operands on an instruction line as objdump printed it: the operand text (second blank-separated word of the
    instruction text, before any annotation or comment) split at commas outside parentheses.  None for lines that start with a
    prefix word (open finding F15 decides what their operands are)."""
    t = instruction_text(text).replace("data16 ", "")
    toks = t.split(None, 1)
    if not toks or toks[0] in PREFIX_WORDS or toks[0].startswith(("rex", "{")):
        return None
    optext = (toks[1] if len(toks) > 1 else "").split("#")[0].strip()
    optext = optext.split(" ")[0] if optext else ""
    return len(split_operands(optext)) if optext else 0


# ---------------------------------------------------------------------------------- operands (C09)


def split_operands(s):
    """Split an AT&T operand string at commas that are not inside parentheses."""
    out, depth, cur = [], 0, ""
    for ch in s:
        if ch == "(":
            depth += 1
        elif ch == ")":
            depth -= 1
        if ch == "," and depth == 0:
            out.append(cur)
            cur = ""
        else:
            cur += ch
    out.append(cur)
    return out


_HEX = r"-?0x[0-9a-f]+"
_REG = r"%[a-z0-9]+"
IMM = re.compile(rf"^\$({_HEX}|-?[0-9]+)$")
REG = re.compile(rf"^{_REG}$")
MEM = re.compile(rf"^({_HEX})?\(({_REG})?(?:,({_REG}),([1248]))?\)$")
TARGET = re.compile(r"^(?:0x)?[0-9a-f]+$")


def normal_form(op, pseudo_index=False):
    """C09 normal form of one AT&T operand, or None if the operand is outside the forms the statement lists (UNSPEC).
    pseudo_index: also accept %riz / %eiz in index position (what objdump prints for a SIB byte without index register);
    C06 needs it - such an operand has an index and a scale component - C09's list of forms names general-purpose registers only."""
    m = IMM.match(op)
    if m:
        return m.group(1)
    if REG.match(op):
        return op if op[1:] in GPRS else None
    m = MEM.match(op)
    if m:
        k, a, b, c = m.groups()
        if a is not None and a[1:] not in GPRS:
            return None
        if b is not None and b[1:] not in GPRS and not (pseudo_index and b in ("%riz", "%eiz")):
            return None
        if a is None and b is None:
            return None
        if a is None and k is None:
            return None  # '(,b,c)' is not among the listed shapes
        s = "[" + (a or "")
        if b is not None:
            s += f"+{b}*{c}"
        if k is not None:
            s += f"+{k}"
        return s + "]"
    if TARGET.match(op):
        return op
    return None


def decode_stream(stream):
    """Recover [(addr, mnemonic, [operands])] from the stream text by the separators of C10; None if malformed."""
    if stream == "":
        return []
    if not stream.endswith("|"):
        return None
    out = []
    for rec in stream[:-1].split("|"):
        if "::" not in rec:
            return None
        addr, rest = rec.split("::", 1)
        fields = rest.split(",")
        if len(fields) < 3 or fields[-1] != "":
            return None
        out.append((addr, fields[0], fields[1:-1]))
    return out
