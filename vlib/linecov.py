"""Line coverage of the code under test while the checks run (a measuring aid, not part of any verdict).

Enabled by VERIF_LINECOV=<directory>: every line of a file under <repo>/src/jasm that executes is written once to
<directory>/<pid>.txt as `relative/path.py:<line>`.  Uses sys.monitoring (Python 3.12): a location reports once and is
then switched off, so the cost after warm-up is nil.  Forked shards inherit what their parent has seen and report only
what is new; tools/linecov.py forms the union and lists the executable lines nobody reached.
"""
import os
import sys

_DIR = os.environ.get("VERIF_LINECOV")
_state = {"pid": None, "fh": None}


def _out():
    pid = os.getpid()
    if _state["pid"] != pid:
        _state["pid"] = pid
        _state["fh"] = open(os.path.join(_DIR, "%d.txt" % pid), "a", buffering=1)
    return _state["fh"]


def install(src_root):
    if not _DIR or not hasattr(sys, "monitoring"):
        return False
    os.makedirs(_DIR, exist_ok=True)
    mon = sys.monitoring
    tool = mon.COVERAGE_ID
    try:
        mon.use_tool_id(tool, "verif-linecov")
    except ValueError:
        return False
    prefix = os.path.join(src_root, "jasm") + os.sep
    cut = len(src_root) + 1

    def on_line(code, line):
        fn = code.co_filename
        if fn.startswith(prefix):
            _out().write("%s:%d\n" % (fn[cut:], line))
        return mon.DISABLE

    mon.register_callback(tool, mon.events.LINE, on_line)
    mon.set_events(tool, mon.events.LINE)
    return True
