"""Shared oracle glue for the matcher-side properties: run JASM, run the reference, compare."""
from . import jasm_io
from .gen_listing import att_view, norm_view
from .model import stream_record
from .refmatch import Ref
from .render import render


def record_table(records):
    starts, ends = {}, {}
    off = 0
    for k, r in enumerate(records):
        starts[off] = k
        off += len(r)
        ends[off] = k + 1
    return "".join(records), starts, ends


def locate(text, records, table=None, from_pos=0):
    """(i, j, pos) such that text == records[i..j-1] concatenated at stream offset pos >= from_pos, else None."""
    stream, starts, ends = table or record_table(records)
    if not text:
        return None
    pos = stream.find(text, from_pos)
    while pos != -1:
        if pos in starts and pos + len(text) in ends:
            return starts[pos], ends[pos + len(text)], pos
        pos = stream.find(text, pos + 1)
    return None


def found_by(spans):
    """'Found' = some window of at least one instruction matches (the empty window of an all-optional rule is no occurrence)."""
    return any(j > i for i, ends in (spans or {}).items() for j in ends)


def compare(ev, pattern, L, mn_full=None, op_full=None, modes=("bool", "list"), any_macro=None, macros_files=None,
            doc_macros=None, tag=None, spans=None, text=None, NV=None):
    """Compare JASM (bool first-find + all-matches full text) with the reference on one (rule, listing, flags).

    Appends deviations to ev; returns (expected_found, spans, reported_spans or None).
    """
    if NV is None:
        NV = norm_view(L)
    records = [stream_record(a, m, o) for a, m, o in NV]
    table = record_table(records)
    if spans is None:
        ref = Ref(NV, bool(mn_full), bool(op_full), any_macro=any_macro)
        spans = ref.spans(pattern)
    exp = found_by(spans)
    if text is None:
        text = render(att_view(L))
    doc = jasm_io.make_doc(pattern, mn_full, op_full, macros=doc_macros)
    ctx = {}
    if mn_full is not None or op_full is not None:
        ctx["flags"] = {"mnemonics-full-match": mn_full, "operands-full-match": op_full}
    if tag:
        ctx["sub"] = tag
    reported = None
    second = jasm_io.second_compilation(doc, macros=macros_files)
    if second:
        ev.dev("second-compilation-on-same-object-differs", detail=second, **ctx)
    if "bool" in modes:
        r = jasm_io.match(doc, text, mode="bool", search="first", macros=macros_files)
        ev.subcases += 1
        if r[0] == "inconclusive":
            ev.inconclusive += 1
        elif r[0] == "exc":
            ev.dev("exception", mode="bool", error=list(r[1:]), **ctx)
        elif r[1] is not exp:
            ev.dev("verdict", mode="bool", expected=exp, observed=r[1], **ctx)
    if "list" in modes:
        r = jasm_io.match(doc, text, mode="list", search="all", macros=macros_files)
        ev.subcases += 1
        if r[0] == "inconclusive":
            ev.inconclusive += 1
        elif r[0] == "exc":
            ev.dev("exception", mode="list", error=list(r[1:]), **ctx)
        else:
            got = r[1]
            reported = []
            if bool(got) != exp:
                ev.dev("verdict", mode="list", expected=exp, observed=got[:3], **ctx)
            pos = 0
            for t in got:
                if t == "":
                    # a match that covers no instruction is not an occurrence (C07: every reported match begins at a record and has
                    # the address of its first instruction): also a rule whose items may all be absent reports what it covers
                    ev.dev("empty-match", **ctx)
                    reported = None
                    break
                ij = locate(t, records, table, pos)
                if ij is None:
                    ev.dev("match-not-a-window", observed=t, **ctx)
                    reported = None
                    break
                pos = ij[2] + len(t)
                reported.append((ij[0], ij[1]))
                if ij[1] not in spans.get(ij[0], ()):
                    ev.dev("match-not-genuine", observed=t, span=[ij[0], ij[1]], **ctx)
                    break
    return exp, spans, reported


def stream_sample(L):
    return "".join(stream_record(a, m, o) for a, m, o in norm_view(L))


def run_all_modes(doc, text, macros_files=None, combos=None):
    """{(mode, search, only_addr): outcome} for the requested combinations (default: all 8)."""
    out = {}
    if combos is None:
        combos = [(m, s, a) for m in ("bool", "list") for s in ("first", "all") for a in (False, True)]
    sc = jasm_io.scratch()
    rp = sc.write("rule.yaml", jasm_io.rule_text(doc))
    lp = sc.write("listing.s", text)
    for m, s, a in combos:
        out[(m, s, a)] = jasm_io.match_files(rp, lp, mode=m, search=s, only_addr=a, macros=macros_files)
    return out
