"""Compile a fixed, generated set of rules with the JASM tree named by VERIF_REPO and write one digest per rule.

  python -m vlib.rxdump <outfile> [examples per property]

Used by tools/mutate.py rxdiff: the same rules (a pure function of the fixed seed, the generators do not depend on JASM) are
compiled under a mutant and under the clean tree; equal digests everywhere = the mutant does not change what any generated rule
compiles to (equivalent on the generated domain); a difference that no matching check noticed is a gap worth a look.
"""
import hashlib
import importlib
import json
import sys

PROPS = ["c01_sequence", "c02_times", "c03_operators", "c04_not", "c05_captures", "c06_deref", "c07_alignment", "c13_macros", "c19_unresolved"]
PATTERN_KEYS = ("pattern", "pattern2", "factored", "inlined", "ref_pattern")


def docs_of(case):
    """Every rule document a case carries: (tag, pattern, flags, macros in file, extra macro files)."""
    if not isinstance(case, dict):
        return
    flags = case.get("flags") or [None, None]
    if not (isinstance(flags, (list, tuple)) and len(flags) == 2):
        flags = [None, None]
    in_file = case.get("macros_in_file") or case.get("macros")
    if in_file is True or in_file is False:
        in_file = None
    files = case.get("macro_files") or []
    if isinstance(case.get("fields"), dict) and "pos" in case:
        # C06: a $deref description and the operand position it stands at
        ops = ["rax"] * int(case["pos"]) + [{"$deref": case["fields"]}]
        yield "deref", [{"mov": ops}], [None, None], None, []
    for k in PATTERN_KEYS:
        pat = case.get(k)
        if isinstance(pat, list) and pat:
            uses_macros = k in ("pattern", "factored") and (in_file or files)
            yield k, pat, flags, (in_file if uses_macros else None), (files if uses_macros else [])


def main(argv):
    out, n = argv[0], int(argv[1]) if len(argv) > 1 else 300
    from hypothesis import HealthCheck, Phase, given, seed, settings

    from . import env, jasm_io  # noqa: F401

    rows = []
    for name in PROPS:
        prop = importlib.import_module(f"props.{name}")
        cases = []

        @seed(20261005)
        @settings(max_examples=n, database=None, deadline=None, derandomize=False, phases=[Phase.generate], suppress_health_check=list(HealthCheck))
        @given(prop.strategy("quick"))
        def collect(c):
            cases.append(c)

        collect()
        for q, case in enumerate(cases):
            for tag, pat, flags, in_file, files in docs_of(case):
                sc = jasm_io.scratch()
                paths = [sc.write(f"rx_macros_{z}.yaml", jasm_io.dump_yaml({"macros": f})) for z, f in enumerate(files)] or None
                try:
                    doc = jasm_io.make_doc(pat, flags[0] or None, flags[1] or None, macros=in_file or None)
                    r = jasm_io.compile_rule(doc, macros=paths)
                except Exception as exc:  # noqa: BLE001 - a rule the harness cannot even write down: same on both sides
                    r = ("harness", type(exc).__name__)
                text = r[1] if r[0] == "ok" else "ERR:" + str(r[1])
                rows.append([name, q, tag, hashlib.sha256(text.encode()).hexdigest()[:16], json.dumps(pat, sort_keys=False, default=str)[:300]])
    with open(out, "w") as f:
        json.dump(rows, f)
    print(len(rows), "rules compiled")


if __name__ == "__main__":
    main(sys.argv[1:])
