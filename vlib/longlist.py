"""Long listings built around plausible chunk sizes.

Implementations that "optimise for huge listings" cut the instruction stream at some round size (seeded changes so far:
4096, 32768, 65536 instructions; overlapping windows of 4096 with 16 shared instructions; a fold exactly at k*4096).  A
fixed list of cut candidates - every power of two from 2^8 to 2^17 and the round decimal sizes - is cheap to cover
completely (~90 000 lines/s/core), so the family is enumerated, not sampled.

A *zone* is a stretch of ZONE instructions with pairwise distinct mnemonics centred on a cut (z_k sits at index
cut - ZONE//2 + k); everything else is `nop` filler.  Four rules are matched against one zone listing:

  pair        [z_h-1, z_h]                       two items straddling the cut (h = ZONE//2)
  ordered-or  $or[[z_h-2, z_h-1, z_h], [z_h-1]]  the leftmost match needs the instruction just past the cut
  varlen      $or[z_h-4 .. z_h+2] times 2..16    a greedy run of 7 crossing the cut
  long        z_0 .. z_ZONE-1                    a pattern longer than any plausible window overlap
"""
CUTS = sorted({2 ** k for k in range(8, 18)} | {1000, 2000, 5000, 10000, 20000, 50000, 100000})
ZONE = 64
_CONS = "bcdfghjklmnpqrstvwxz"


def zone_mnemonic(k):
    """Distinct pronounceable-ish mnemonics that are not substrings of one another and do not occur in 'nop'."""
    return "z" + _CONS[k // len(_CONS)] + _CONS[k % len(_CONS)] + "e"


def zone_listing(cut, tail=40):
    """-> instruction list [(addr, mnemonic, [operands])] of length cut + ZONE//2 + tail with the zone centred on cut."""
    start = cut - ZONE // 2
    n = cut + ZONE // 2 + tail
    L = []
    addr = 0x400000
    for q in range(n):
        if start <= q < start + ZONE:
            k = q - start
            L.append((format(addr, "x"), zone_mnemonic(k), ["%rax"] if k % 3 == 0 else []))
            addr += 3
        else:
            L.append((format(addr, "x"), "nop", []))
            addr += 1
    return L, start


def zone_rules():
    h = ZONE // 2
    z = zone_mnemonic
    return {
        "pair": [z(h - 1), z(h)],
        "ordered-or": [{"$or": [{"$and": [z(h - 2), z(h - 1), z(h)]}, z(h - 1)]}],
        "varlen": [{"$or": [z(k) for k in range(h - 4, h + 3)], "times": {"min": 2, "max": 16}}],
        "long": [z(k) for k in range(ZONE)],
    }


def zone_spans(cut, name):
    """Reference spans {start: {ends}} of the four rules on zone_listing(cut), written down directly."""
    start = cut - ZONE // 2
    h = ZONE // 2
    if name == "pair":
        return {start + h - 1: {start + h + 1}}
    if name == "ordered-or":
        return {start + h - 2: {start + h + 1}, start + h - 1: {start + h}}
    if name == "varlen":
        lo, hi = start + h - 4, start + h + 3  # the run of 7
        return {i: set(range(i + 2, hi + 1)) for i in range(lo, hi - 1)}
    if name == "long":
        return {start: {start + ZONE}}
    raise KeyError(name)


def exact_lengths():
    """Listing lengths at which a fold/flush off-by-one would show: each cut and its neighbours."""
    out = set()
    for c in CUTS:
        out.update((c - 1, c, c + 1))
    return sorted(out)


def plain_listing(n):
    """n instructions in stream normal form: mostly `nop`, every 97th with operands, a distinct last one."""
    L = []
    addr = 0x400000
    for q in range(n):
        if q == n - 1:
            L.append((format(addr, "x"), "hlt", []))
        elif q % 97 == 5:
            L.append((format(addr, "x"), "mov", ["%rax", "%rbx"]))
        else:
            L.append((format(addr, "x"), "nop", []))
        addr += 1 + q % 3
    return L


def exact_length_case(n):
    """Stream of a listing of exactly n instructions vs the text the statement prescribes; -> None or a deviation dict."""
    from . import jasm_io
    from .model import stream_text
    from .render import render

    L = plain_listing(n)
    r = jasm_io.stream_of(render(L))
    if r[0] == "inconclusive":
        return {"inconclusive": True}
    if r[0] != "ok":
        return {"kind": "exception", "instructions": n, "error": list(r[1:])}
    want = stream_text(L)
    if r[1] != want:
        got = r[1]
        k = next((i for i, (x, y) in enumerate(zip(got, want)) if x != y), min(len(got), len(want)))
        return {"kind": "long-listing-stream-differs", "instructions": n, "expected_records": n, "observed_records": got.count("|"), "first_difference_at_char": k,
                "expected_there": want[max(0, k - 30): k + 40], "observed_there": got[max(0, k - 30): k + 40]}
    return None


def run_exact_lengths(rep, prop_eval_cls, lengths=None):
    """Shared `extra` part of C08 and C10: every length in exact_lengths(), 16-way."""
    import multiprocessing as mp

    lengths = lengths or exact_lengths()
    with mp.get_context("fork").Pool(16, maxtasksperchild=1) as pool:
        for n, dev in pool.imap_unordered(_exact_worker, sorted(lengths, reverse=True), chunksize=1):
            ev = prop_eval_cls()
            ev.tags = ["exact-length-listing"]
            ev.nontrivial = True
            ev.keys = [("exact-length", n)]
            ev.subcases = n
            if dev and dev.get("inconclusive"):
                ev.inconclusive += 1
            elif dev:
                ev.deviations.append(dev)
            rep.add_eval({"exact_length": n}, ev)
    rep.extra["exact_length_listings"] = {"lengths": len(lengths), "largest": max(lengths)}
    rep.exhaustive_parts.append(f"synthetic listings of every length in {{c-1, c, c+1}} for the {len(CUTS)} chunk-size candidates")


def _exact_worker(n):
    return n, exact_length_case(n)
