"""Long listings built around plausible chunk sizes.

Implementations that "optimise for huge listings" cut the instruction stream at some round size (seeded changes so far:
4096, 32768, 65536 instructions; overlapping windows of 4096 with 16 shared instructions; a fold exactly at k*4096).  A
fixed list of cut candidates - every power of two from 2^8 to 2^17 and the round decimal sizes - is cheap to cover
completely (~90 000 lines/s/core), so the family is enumerated, not sampled.

A *zone* is a stretch of ZONE instructions with pairwise distinct mnemonics centred on a cut (z_k sits at index
cut - ZONE//2 + k); everything else is `nop` filler.  Four rules are matched against one zone listing:

  pair        [z_h-1, z_h]                       two items straddling the cut (h = ZONE//2)
  ordered-or  $or[[z_h-2, z_h-1, z_h], [z_h-1]]  the leftmost match needs the instruction just past the cut
  varlen      $or[z_h-4 .. z_h+2] times 2..16    a greedy run of 7 crossing the cut
  long        z_0 .. z_ZONE-1                    a pattern longer than any plausible window overlap
"""
CUTS = sorted({2 ** k for k in range(8, 18)} | {1000, 2000, 5000, 10000, 20000, 50000, 100000})
ZONE = 64
_CONS = "bcdfghjklmnpqrstvwxz"


def zone_mnemonic(k):
    """Distinct pronounceable-ish mnemonics that are not substrings of one another and do not occur in 'nop'."""
    return "z" + _CONS[k // len(_CONS)] + _CONS[k % len(_CONS)] + "e"


def zone_listing(cut, tail=40):
    """-> instruction list [(addr, mnemonic, [operands])] of length cut + ZONE//2 + tail with the zone centred on cut."""
    start = cut - ZONE // 2
    n = cut + ZONE // 2 + tail
    L = []
    addr = 0x400000
    for q in range(n):
        if start <= q < start + ZONE:
            k = q - start
            L.append((format(addr, "x"), zone_mnemonic(k), ["%rax"] if k % 3 == 0 else []))
            addr += 3
        else:
            L.append((format(addr, "x"), "nop", []))
            addr += 1
    return L, start


def zone_rules():
    h = ZONE // 2
    z = zone_mnemonic
    return {
        "pair": [z(h - 1), z(h)],
        "ordered-or": [{"$or": [{"$and": [z(h - 2), z(h - 1), z(h)]}, z(h - 1)]}],
        "varlen": [{"$or": [z(k) for k in range(h - 4, h + 3)], "times": {"min": 2, "max": 16}}],
        "long": [z(k) for k in range(ZONE)],
    }


def zone_spans(cut, name):
    """Reference spans {start: {ends}} of the four rules on zone_listing(cut), written down directly."""
    start = cut - ZONE // 2
    h = ZONE // 2
    if name == "pair":
        return {start + h - 1: {start + h + 1}}
    if name == "ordered-or":
        return {start + h - 2: {start + h + 1}, start + h - 1: {start + h}}
    if name == "varlen":
        lo, hi = start + h - 4, start + h + 3  # the run of 7
        return {i: set(range(i + 2, hi + 1)) for i in range(lo, hi - 1)}
    if name == "long":
        return {start: {start + ZONE}}
    raise KeyError(name)


def exact_lengths():
    """Listing lengths at which a fold/flush off-by-one would show: each cut and its neighbours."""
    out = set()
    for c in CUTS:
        out.update((c - 1, c, c + 1))
    return sorted(out)
