"""Preludes: one small, complete JASM operation with an unusual configuration, run as the FIRST operation of a worker.

C14 says that no earlier compile-and-match in the process may change a later result.  Every campaign shard is a fresh
process; before its first generated case it runs one of these operations through the public API.  On code that honours
C14 this is invisible, so it can never cause a false alarm; a cache that is filled at first use (a style flag resolved
once, an observer list shared at class level, a memoised config value) is filled with an atypical value and every
following case of that shard is judged against its ordinary oracle.

The kind is a pure function of (VERIF_SEED, shard index): kind = KINDS[(seed + shard) % len(KINDS)].
"""
import os

KINDS = ["none", "style-intel", "range", "full-match", "style-att-binary", "captures-macros", "sections-binary", "failing", "style-intel-binary", "instance-reuse"]

_LISTING = """
0000000000401000 <f>:
  401000:\t55                   \tpush   %rbp
  401001:\t48 89 e5             \tmov    %rsp,%rbp
  401004:\te8 17 00 00 00       \tcall   401020 <g>
  401009:\t48 8b 45 f8          \tmov    -0x8(%rbp),%rax
  40100d:\teb 11                \tjmp    401020 <g>
  40100f:\t5d                   \tpop    %rbp
  401010:\tc3                   \tret
"""


def kind_for(seed, shard):
    return KINDS[(seed + shard) % len(KINDS)]


def run(kind):
    """Execute the prelude; its own result is irrelevant (exceptions included)."""
    if kind == "none":
        return
    from . import jasm_io
    from .elfw import make_elf

    sc = jasm_io.scratch()
    lp = sc.write("prelude.s", _LISTING)
    text = bytes.fromhex("554889e5e8100000488b45f85dc3")
    bp = sc.write("prelude.o", make_elf([(".text", text, True), (".text.b", bytes.fromhex("5058c3"), True)], [("main", 1, 0)]))

    def op(doc, inp=lp, binary=False, macros=None, mode="list", search="all", only=True):
        rp = sc.write("prelude_rule.yaml", jasm_io.rule_text(doc))
        return jasm_io.match_files(rp, inp, mode=mode, search=search, only_addr=only, macros=macros, binary=binary)

    if kind == "style-intel":
        op(jasm_io.make_doc(["push", "mov"], config={"style": "intel"}))
    elif kind == "style-intel-binary":
        op(jasm_io.make_doc(["push"], config={"style": "intel"}), inp=bp, binary=True)
    elif kind == "style-att-binary":
        op(jasm_io.make_doc(["push", "mov"], config={"style": "att"}), inp=bp, binary=True, mode="bool", search="first")
    elif kind == "range":
        op(jasm_io.make_doc([{"call": ["valid_addr"]}], config={"valid_addr_range": {"min": "0x400000", "max": "0x4fffff"}}))
    elif kind == "full-match":
        op(jasm_io.make_doc(["mov", {"call": ["401020"]}], True, True))
    elif kind == "captures-macros":
        mp = sc.write("prelude_macros.yaml", jasm_io.dump_yaml({"macros": [{"name": "@pre_any", "pattern": "[^,|]{1,20}"}]}))
        op(jasm_io.make_doc([{"push": ["&r"]}, {"mov": ["@pre_any", "&r"]}, "@pre_c"], macros=[{"name": "@pre_c", "pattern": [{"$or": ["call", "jmp"]}]}]), macros=[mp], only=False)
    elif kind == "sections-binary":
        op(jasm_io.make_doc(["pop"], config={"sections": [".text.b"]}), inp=bp, binary=True)
    elif kind == "failing":
        op(jasm_io.make_doc(["mov"], config={"mnemonics-full-match": "yes"}))
        op(jasm_io.make_doc(["@undefined_prelude"], macros=[{"name": "@m", "pattern": "x"}]))
        op(jasm_io.make_doc(["mov"]), inp=os.path.join(sc.dir, "no_such_listing.s"))
    elif kind == "instance-reuse":
        from jasm.global_definitions import InputFileType, MatchingReturnMode, MatchingSearchMode
        from jasm.match import MasterOfPuppets, MatchConfig

        rp = sc.write("prelude_rule.yaml", jasm_io.rule_text(jasm_io.make_doc(["mov"], config={"valid_addr_range": {"min": "401000", "max": "401fff"}})))
        try:
            m = MasterOfPuppets(MatchConfig(pattern_pathstr=rp, input_file=lp, input_file_type=InputFileType.assembly, return_only_address=False,
                                            return_mode=MatchingReturnMode.matched_addrs_list, matching_mode=MatchingSearchMode.all_finds))
            m.perform_matching()
            m.perform_matching()
        except Exception:  # noqa: BLE001
            pass
