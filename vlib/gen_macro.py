"""Factor a macro-free rule into macros in the supported use forms (C13, C19).

factor(draw, pattern) -> (factored pattern, [macro definitions in a valid order], stats)
The inlined rule is the input pattern itself, so 'macro expansion == manual inlining' is checked against it.
Macro names are pairwise not substrings of one another (@ma_, @mb_, ...).
"""
import copy

from hypothesis import strategies as st

OPS = ("$and", "$or", "$and_any_order", "$not")
MNAMES = ["@ma_", "@mb_", "@mc_", "@md_", "@me_", "@mf_"]
# the same with characters a name may contain besides letters, digits and '_' (a user's @gp-reg, @x.lo): still pairwise not contained
MNAMES_PUNCT = ["@ma.x_", "@mb_", "@m-c_", "@md_", "@m-e.x_", "@mf_"]
FORMALS = ["a", "b", "r", "x", "argx", "e", "argy", "ax", "argz"]  # short ones occur inside literals of the body (rax, rbx): formals are matched by equality only


def _is_item_dict(node):
    return isinstance(node, dict) and list(node)[0] not in OPS and list(node)[0] != "$deref"


def item_slots(container, out, path=()):
    """Slots (list, index) holding instruction-level nodes, recursively."""
    for i, node in enumerate(container):
        out.append((container, i, "item"))
        if isinstance(node, dict):
            key = list(node)[0]
            if key in OPS:
                item_slots(node[key], out)
            elif isinstance(node[key], list):
                operand_slots(node[key], out)
    return out


def operand_slots(container, out):
    for i, node in enumerate(container):
        out.append((container, i, "operand"))
        if isinstance(node, dict):
            key = list(node)[0]
            if key in OPS:
                operand_slots(node[key], out)


def contains_macro_use(node):
    if isinstance(node, str):
        return "@" in node
    if isinstance(node, list):
        return any(contains_macro_use(x) for x in node)
    if isinstance(node, dict):
        return any(contains_macro_use(k) or contains_macro_use(v) for k, v in node.items())
    return False


def leaf_strings(node, out, in_operands=False):
    """(container, key/index) of every leaf name (str/int) inside node that a formal parameter may stand for."""
    if isinstance(node, list):
        for i, x in enumerate(node):
            if isinstance(x, (str, int)) and not isinstance(x, bool):
                out.append((node, i))
            else:
                leaf_strings(x, out)
    elif isinstance(node, dict):
        for k, v in node.items():
            if k == "times":
                continue
            if k == "$deref":
                for fk, fv in v.items():
                    if isinstance(fv, (str, int)):
                        out.append((v, fk))
                continue
            leaf_strings(v, out)
    return out


def all_strings(node, acc):
    if isinstance(node, (str, int)):
        acc.add(str(node))
    elif isinstance(node, list):
        for x in node:
            all_strings(x, acc)
    elif isinstance(node, dict):
        for k, v in node.items():
            acc.add(str(k))
            all_strings(v, acc)
    return acc


def factor(draw, pattern, max_macros=4):
    pat = copy.deepcopy(pattern)
    macros = []  # creation order == a valid definition order (later ones may be nested in earlier bodies)
    kinds = []
    uses = 0
    nmac = draw(st.integers(1, max_macros))
    roots = [pat]  # containers to search for slots: the rule and macro bodies
    names = MNAMES_PUNCT if draw(st.integers(0, 2)) == 0 else MNAMES
    for q in range(nmac):
        name = names[len(macros)]
        kind = draw(st.sampled_from(["item", "operand", "substring", "times-body", "param", "param", "key-substring", "key-whole", "chain", "chain", "second-in-name", "second-in-name"]))
        root = draw(st.sampled_from(roots))
        slots = item_slots(root, [])
        if kind == "item":
            cand = [(c, i) for c, i, t in slots if t == "item" and not contains_macro_use(c[i])]
            if not cand:
                continue
            c, i = draw(st.sampled_from(cand))
            body = [copy.deepcopy(c[i])]
            macros.append({"name": name, "pattern": body})
            c[i] = name
            roots.append(body)
        elif kind == "operand":
            cand = [(c, i) for c, i, t in slots if t == "operand" and not contains_macro_use(c[i])]
            if not cand:
                continue
            c, i = draw(st.sampled_from(cand))
            node = c[i]
            if isinstance(node, dict):
                body = [copy.deepcopy(node)]
                macros.append({"name": name, "pattern": body})
            else:
                macros.append({"name": name, "pattern": str(node)})
            c[i] = name
        elif kind == "substring":
            cand = [(c, i) for c, i, t in slots if isinstance(c[i], str) and len(c[i]) >= 2 and "@" not in c[i] and not c[i].startswith(("&", "$"))]
            if not cand:
                continue
            c, i = draw(st.sampled_from(cand))
            s = c[i]
            a = draw(st.integers(0, len(s) - 1))
            b = draw(st.integers(a + 1, len(s)))
            if (a, b) == (0, len(s)):
                b = len(s) - 1 if len(s) > 1 else b
            mid = s[a:b]
            if not mid:
                continue
            macros.append({"name": name, "pattern": mid})
            c[i] = s[:a] + name + s[b:]
        elif kind == "second-in-name":
            # a name that already holds one string macro gets a second, independent one - before or after the first in the name, while it
            # is LISTED after it (so in half of the cases the macro standing later in the name is listed earlier)
            cand = [(c, i) for c, i, t in slots if isinstance(c[i], str) and c[i].count("@") == 1 and not c[i].startswith(("&", "$"))
                    and any(m_["name"] in c[i] and isinstance(m_["pattern"], str) and "args" not in m_ for m_ in macros)]
            if not cand:
                continue
            c, i = draw(st.sampled_from(cand))
            s = c[i]
            first = next(m_["name"] for m_ in macros if m_["name"] in s)
            at = s.index(first)
            parts = [(0, at), (at + len(first), len(s))]
            parts = [(lo_, hi_) for lo_, hi_ in parts if hi_ - lo_ >= 1]
            if not parts:
                continue
            lo_, hi_ = draw(st.sampled_from(parts))
            a = draw(st.integers(lo_, hi_ - 1))
            b = draw(st.integers(a + 1, hi_))
            macros.append({"name": name, "pattern": s[a:b]})
            c[i] = s[:a] + name + s[b:]
        elif kind == "times-body":
            cand = [(c, i) for c, i, t in slots if t == "item" and isinstance(c[i], dict) and len(c[i]) == 1 and isinstance(list(c[i].values())[0], dict)
                    and list(list(c[i].values())[0]) == ["times"] and "@" not in str(list(c[i])[0])]
            if not cand:
                continue
            c, i = draw(st.sampled_from(cand))
            nm = list(c[i])[0]
            macros.append({"name": name, "pattern": str(nm)})
            c[i] = {name: c[i][nm]}
        elif kind in ("key-substring", "key-whole"):
            # the name of an item that has a body (operand list, times) is a mapping key: a string macro inside it / standing for it
            cand = [(c, i) for c, i, t in slots if t == "item" and isinstance(c[i], dict) and isinstance(list(c[i])[0], str) and list(c[i])[0] not in OPS
                    and not list(c[i])[0].startswith(("&", "$", "@")) and "@" not in list(c[i])[0] and list(c[i])[0] != "times" and len(list(c[i])[0]) >= 2
                    and (isinstance(c[i][list(c[i])[0]], list) or kind == "key-substring")]
            if not cand:
                continue
            c, i = draw(st.sampled_from(cand))
            s_ = list(c[i])[0]
            if kind == "key-whole":
                a, b = 0, len(s_)
            else:
                a = draw(st.integers(0, len(s_) - 1))
                b = draw(st.integers(a + 1, len(s_)))
                if (a, b) == (0, len(s_)):
                    b = len(s_) - 1
            # (the reference may be followed by a name character - `v@opps` - as anywhere else: macro names are pairwise not
            # contained in one another, so the longer spelling is no other macro's name; F38b)
            macros.append({"name": name, "pattern": s_[a:b]})
            c[i] = {(s_[:a] + name + s_[b:] if k_ == s_ else k_): v_ for k_, v_ in c[i].items()}
        elif kind == "chain":
            # a string macro whose own body refers to a macro listed after it (`@jcc: j@cc`, `@cc: ne`)
            cand = [m_ for m_ in macros if isinstance(m_["pattern"], str) and "args" not in m_ and len(m_["pattern"]) >= 2 and "@" not in m_["pattern"]]
            if not cand:
                continue
            m_ = draw(st.sampled_from(cand))
            s_ = m_["pattern"]
            a = draw(st.integers(0, len(s_) - 1))
            b = draw(st.integers(a + 1, len(s_)))
            if (a, b) == (0, len(s_)):
                a = 1
            # a reference is never directly followed by a name character (it would read as a longer macro name)
            if b < len(s_) and (s_[b].isalnum() or s_[b] == "_"):
                b = len(s_)
            macros.append({"name": name, "pattern": s_[a:b]})
            m_["pattern"] = s_[:a] + name + s_[b:]
            if len(macros) < len(names) and len(s_[a:b]) >= 2 and draw(st.booleans()):
                # ... and that one refers to a third (P -> X -> Y, listed in this order)
                y_name = names[len(macros)]
                x_body = s_[a:b]
                a2 = draw(st.integers(0, len(x_body) - 1))
                b2 = draw(st.integers(a2 + 1, len(x_body)))
                if (a2, b2) == (0, len(x_body)):
                    a2 = 1
                if b2 < len(x_body) and (x_body[b2].isalnum() or x_body[b2] == "_"):
                    b2 = len(x_body)
                macros[-1]["pattern"] = x_body[:a2] + y_name + x_body[b2:]
                macros.append({"name": y_name, "pattern": x_body[a2:b2]})
                kinds.append("chain-of-three")
        else:  # parameterised
            cand = [(c, i) for c, i, t in slots if t == "item" and isinstance(c[i], dict) and not contains_macro_use(c[i]) and "times" not in c[i]]
            if not cand:
                continue
            c, i = draw(st.sampled_from(cand))
            body_node = copy.deepcopy(c[i])
            leaves = leaf_strings(body_node, [])
            leaves = [(cc, k) for cc, k in leaves if not str(cc[k]).startswith(("&", "$", "@"))]
            if not leaves:
                continue
            taken = all_strings(body_node, set())
            formals = [f for f in draw(st.permutations(FORMALS)) if f not in taken]
            nform = draw(st.integers(1, min(3, len(leaves), len(formals))))
            chosen = draw(st.permutations(list(range(len(leaves)))))[:nform]
            actuals = {}
            for f, li in zip(formals, chosen):
                cc, k = leaves[li]
                actuals[f] = cc[k]
                cc[k] = f
            # every leaf equal to an actual that became a formal stays literal: formals are matched by equality with the formal's own name only
            macros.append({"name": name, "args": formals[:nform], "pattern": [body_node]})
            call = {name: None}
            call.update(actuals)
            c[i] = call
            # further uses with other actuals are appended by the caller through `extra_use`
        kinds.append(kind)
        uses += 1
    return pat, macros, kinds


def instantiate(macro, actuals):
    """Manual inlining of one use of a parameterised macro: the body with formals replaced by the actuals."""
    body = copy.deepcopy(macro["pattern"][0])

    def sub(node):
        if isinstance(node, list):
            return [sub(x) for x in node]
        if isinstance(node, dict):
            return {k: sub(v) for k, v in node.items()}
        if isinstance(node, str) and node in actuals:
            return copy.deepcopy(actuals[node])
        return node

    return sub(body)


def split_definitions(draw, macros):
    """-> (macros kept in the rule file, [extra file contents...]) preserving a valid order: extra files first, in order."""
    n = len(macros)
    cut = draw(st.integers(0, n))
    extra, in_file = macros[:cut], macros[cut:]
    files = []
    if extra:
        c2 = draw(st.integers(0, len(extra)))
        files = [extra[:c2], extra[c2:]] if 0 < c2 < len(extra) else [extra]
    return in_file, files


def inline_all(tree, macros):
    """Reference macro expander (manual inlining), independent of JASM's: returns the macro-free tree."""
    by_name = {m["name"]: m for m in macros}

    def body_of(m):
        p = m["pattern"]
        return copy.deepcopy(p[0]) if isinstance(p, list) else p

    def go(node):
        if isinstance(node, str):
            if node in by_name:
                return go(body_of(by_name[node]))
            for nm, m in by_name.items():
                if nm in node:
                    return go(node.replace(nm, str(m["pattern"])))
            return node
        if isinstance(node, list):
            return [go(x) for x in node]
        if isinstance(node, dict):
            for k in node:
                if k in by_name:
                    m = by_name[k]
                    if "args" in m:
                        actuals = {f: node[f] for f in m["args"] if f in node}
                        return go(instantiate(m, actuals))
                    if isinstance(m["pattern"], str):
                        # the macro stands for the name of the item; its body (operand list / times) and sibling keys stay
                        return {(go(m["pattern"]) if k2 == k else k2): go(v2) for k2, v2 in node.items()}
                    return go(body_of(m))
            return {(go(k) if isinstance(k, str) and "@" in k else k): go(v) for k, v in node.items()}
        return node

    return go(tree)
