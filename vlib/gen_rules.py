"""The broadest rule generator (C07, C12): every construct, any operator leading, with/without the shipped macros.

A case carries two renderings of the same rule: `pattern` (what JASM gets; may use the shipped macros
@any / @any_shift / @any_rot) and `ref_pattern` (the same rule with @any_shift/@any_rot inlined by hand;
@any is kept and read by the reference matcher as a one-field wildcard).
"""
import copy
import os

from hypothesis import assume, strategies as st

from . import env
from .gen_listing import OPERANDS, instruction_body, listings, norm_view, parse_norm_mem
from .gen_pattern import describe_inst, describe_operand, describe_window, lit_ok, listing_decoy

SHIPPED_MACROS = os.path.join(env.REPO, "tests", "macros", "jasm_macros.yaml")
SHIPPED_INLINE = {
    "@any_shift": {"$or": ["shr", "shl", "sal", "sar"]},
    "@any_rot": {"$or": ["rol", "ror"]},
}
LIST_MUTATORS = ["none", "none", "none", "insert", "delete", "swap", "replace-copy", "restart-addresses"]


def _walk_items(pattern, fn, top=True):
    """Apply fn(item) -> replacement to every instruction-level item (str/int or {name: [ops]} dict)."""
    out = []
    for node in pattern:
        if isinstance(node, dict):
            key = list(node)[0]
            if key in ("$and", "$or", "$and_any_order", "$not"):
                d = dict(node)
                d[key] = _walk_items(node[key], fn, False)
                out.append(d)
                continue
        out.append(fn(node, top) if fn.__code__.co_argcount >= 2 else fn(node))
    return out


def inline_shipped(pattern):
    def fn(node):
        if isinstance(node, str) and node in SHIPPED_INLINE:
            return copy.deepcopy(SHIPPED_INLINE[node])
        return node

    return _walk_items(pattern, fn)


def names_ok(node, operand=False):
    if isinstance(node, list):
        return all(names_ok(x, operand) for x in node)
    if isinstance(node, dict):
        for k, v in node.items():
            if k in ("$or", "$and", "$and_any_order", "$not"):
                if not names_ok(v, operand):
                    return False
            elif k in ("$deref", "times"):
                continue
            else:
                if not (lit_ok(str(k), operand=False) or str(k) in ("@any",) or str(k).startswith("&")):
                    return False
                if isinstance(v, list) and not names_ok(v, True):
                    return False
        return True
    s = str(node)
    return lit_ok(s, operand=operand) or s in ("@any", "@any_shift", "@any_rot") or s.startswith("&")


@st.composite
def broad_cases(draw, max_len=12, allow_nullable=True):
    use_macros = draw(st.booleans())
    mut = draw(st.sampled_from(LIST_MUTATORS))
    L = draw(listings(min_len=2, max_len=max_len))
    n = len(L)
    NV = norm_view(L)
    i = draw(st.integers(0, n - 1))
    j = draw(st.integers(i + 1, min(n, i + 5)))
    full = draw(st.sampled_from([(False, False), (False, False), (True, False), (False, True), (True, True)]))
    allow = frozenset(draw(st.sets(st.sampled_from(["$and", "$or", "$and_any_order", "$not", "times", "gtimes"]), max_size=4)))
    pattern = describe_window(draw, NV, i, j, full, allow=allow, max_depth=2)
    feats = set()
    cap_count = [0]

    def tweak(node, top=True):
        # item-level feature injection (capture definitions only on the executed-exactly-once spine, cf. C05)
        choice = draw(st.sampled_from(["keep", "keep", "keep", "any-mn", "any-op", "extra-ops", "icap", "ocap", "deref", "shipped", "min0", "op-not", "op-not", "op-not"]))
        if choice == "keep":
            return node
        name = node if not isinstance(node, dict) else list(node)[0]
        if isinstance(node, dict) and ("times" in node or (isinstance(node[name], dict))):
            return node
        ops = list(node[name]) if isinstance(node, dict) else []
        if choice == "any-mn" and use_macros and not ops:
            # (a string macro used as the key of an item with an operand list is not a supported use form: it fails loudly)
            feats.add("@any-mnemonic")
            return "@any"
        if choice == "any-op" and use_macros:
            feats.add("@any-operand")
            k = draw(st.integers(0, len(ops)))
            if k < len(ops):
                ops[k] = "@any"
            else:
                ops.append("@any")
            return {name: ops}
        if choice == "extra-ops":
            feats.add("extra-operands")
            extra = [draw(st.sampled_from(["@any", "rax", "0x1", "%r8"])) if use_macros else draw(st.sampled_from(["rax", "0x1", "%r8"])) for _ in range(draw(st.integers(1, 3)))]
            return {name: ops + extra}
        if choice == "op-not":
            # an operand-level $not at any position up to one past the described operands
            feats.add("operand-not")
            k = draw(st.integers(0, len(ops)))
            neg = {"$not": [draw(st.sampled_from(["zz", "%rsp", "0x77", "rax"]))]}
            how = draw(st.sampled_from(["insert", "replace", "replace-and-skip", "replace-and-skip"]))
            if how == "insert" or k >= len(ops):
                ops.insert(k, neg)
            elif how == "replace":
                ops[k] = neg  # the descriptions after it stay aligned with their operands
            else:
                # the description after the $not is that of the operand one further on: only a $not that swallows two
                # operands would let it match
                ops[k] = neg
                if k + 1 < len(ops):
                    del ops[k + 1]
                    feats.add("operand-not-then-later-operand")
            return {name: ops}
        if choice == "icap" and cap_count[0] < 3 and top:
            cap_count[0] += 1
            feats.add("capture")
            return f"&i{cap_count[0]}"
        if choice == "ocap" and cap_count[0] < 3 and top:
            cap_count[0] += 1
            feats.add("capture")
            k = draw(st.integers(0, len(ops)))
            if k < len(ops):
                ops[k] = f"&x{cap_count[0]}"
            else:
                ops.append(f"&x{cap_count[0]}")
            return {name: ops}
        if choice == "shipped" and use_macros:
            feats.add("shipped-group-macro")
            return draw(st.sampled_from(["@any_shift", "@any_rot"]))
        if choice == "min0":
            feats.add("min0")
            t = {"min": 0, "max": draw(st.integers(1, 2))}
            return {name: {"times": t}} if not ops else {name: ops, "times": t}
        return node

    pattern = _walk_items(pattern, tweak)
    # $deref in place of a memory operand description (top-level items only)
    for q, node in enumerate(pattern):
        if isinstance(node, dict) and draw(st.integers(0, 4)) == 0:
            name = list(node)[0]
            if isinstance(node[name], list) and not str(name).startswith("$") and i + q < n:
                for z, o in enumerate(NV[min(n - 1, i + q)][2][: len(node[name])]):
                    comp = parse_norm_mem(o)
                    if comp and isinstance(node[name][z], (str, int)):
                        keymap = {"a": "main_reg", "b": "register_multiplier", "c": "constant_multiplier", "k": "constant_offset"}
                        fields = {keymap[k2]: v for k2, v in comp.items()}
                        if use_macros and draw(st.booleans()):
                            fields[draw(st.sampled_from(sorted(fields)))] = "@any"
                            feats.add("@any-deref")
                        node[name][z] = {"$deref": fields}
                        feats.add("deref")
                        break
    # a capture used twice (back-reference): two spine items whose instructions are identical, or share their first operand
    if draw(st.integers(0, 2)) == 0 and cap_count[0] < 3:
        span = list(range(i, min(j, i + len(pattern))))
        plain = [q for q in range(len(pattern)) if (isinstance(pattern[q], (str, int)) and not str(pattern[q]).startswith(("@", "&"))) or (isinstance(pattern[q], dict) and "times" not in pattern[q]
                 and not str(list(pattern[q])[0]).startswith(("$", "&", "@")) and isinstance(pattern[q][list(pattern[q])[0]], list))]
        # only when the rule is a flat description (item q describes instruction i+q)
        flat = len(pattern) == j - i and all(isinstance(x, (str, int)) or (isinstance(x, dict) and not str(list(x)[0]).startswith("$") and "times" not in x) for x in pattern)
        if flat and len(plain) >= 2:
            a_, b_ = sorted(draw(st.permutations(plain))[:2])
            ia, ib = NV[i + a_], NV[i + b_]
            cap_count[0] += 1
            if ia[1:] == ib[1:] and draw(st.booleans()):
                pattern[a_] = pattern[b_] = f"&i{cap_count[0]}"
                feats.add("capture-reuse")
            elif ia[2] and ib[2] and ia[2][0] == ib[2][0] and ia[2][0] != "":
                for q, ins in ((a_, ia), (b_, ib)):
                    nm = pattern[q] if isinstance(pattern[q], (str, int)) else list(pattern[q])[0]
                    rest = pattern[q][nm][1:] if isinstance(pattern[q], dict) else []
                    pattern[q] = {nm: [f"&x{cap_count[0]}"] + [r for r in rest if not isinstance(r, dict) or "$not" not in r]}
                feats.add("capture-reuse")
    if pattern and isinstance(pattern[0], dict) and list(pattern[0])[0] in ("$not", "$or", "$and_any_order"):
        feats.add("leading=" + list(pattern[0])[0])
    if pattern and isinstance(pattern[0], str) and pattern[0].startswith("&"):
        feats.add("leading=capture")
    # listing mutator
    if mut == "insert":
        m, oa, on = draw(instruction_body())
        L.insert(draw(st.integers(i, j)), ["0", m, oa, on])
    elif mut == "delete" and len(L) > 1:
        del L[draw(st.integers(i, j - 1))]
    elif mut == "swap" and len(L) >= 2:
        k2 = draw(st.integers(max(0, i - 1), min(len(L) - 2, j - 1)))
        L[k2], L[k2 + 1] = L[k2 + 1], L[k2]
    elif mut == "replace-copy":
        src = draw(st.integers(max(0, i - 1), min(len(L) - 1, j)))
        dst = draw(st.integers(i, j - 1))
        L[dst] = [L[dst][0], L[src][1], list(L[src][2]), list(L[src][3])]
    a = int(L[0][0], 16)
    restart_at = draw(st.integers(1, len(L) - 1)) if (mut == "restart-addresses" and len(L) > 1) else None
    for q, rec in enumerate(L):
        if restart_at is not None and q == restart_at:
            a = int(L[0][0], 16)  # a second section / archive member restarting at the same address
        rec[0] = format(a, "x")
        a += draw(st.integers(1, 7))
    if draw(st.integers(0, 5)) == 0:
        # address columns zero padded to a fixed width, as in raw-binary / object dumps (`00:`, `04:`)
        w_ = draw(st.sampled_from([2, 4, 8, 16]))
        for rec in L:
            rec[0] = rec[0].zfill(w_)
        feats.add("addresses-zero-padded")
    # duplicate the whole listing sometimes so that there are several occurrences
    if draw(st.integers(0, 3)) == 0 and len(L) <= 8:
        base = a
        for rec in list(L):
            L.append([format(base, "x"), rec[1], list(rec[2]), list(rec[3])])
            base += draw(st.integers(1, 7))
        feats.add("doubled")
    assume(names_ok(pattern))
    cont = sorted(draw(st.sets(st.integers(0, len(L) - 1), max_size=3))) if draw(st.integers(0, 2)) == 0 else []
    # the listing may consist of several `Disassembly of section` blocks and the rule may carry a `sections` list: for a text
    # listing that list selects nothing (it tells objdump what to disassemble), the instruction sequence is the whole file
    breaks, sections_cfg = [], None
    if len(L) >= 3 and draw(st.integers(0, 3)) == 0:
        ks = sorted(draw(st.sets(st.integers(1, len(L) - 1), min_size=1, max_size=2)))
        breaks = [[k_, nm_] for k_, nm_ in zip(ks, draw(st.permutations([".plt", ".text.hot", ".fini"])))]
        sections_cfg = draw(st.sampled_from([None, [".text"], [".text", breaks[-1][1]], [breaks[0][1]], [".nosuch"]]))
        feats.add("section-blocks")
        if sections_cfg:
            feats.add("sections-config")
    return {
        "section_breaks": breaks,
        "sections_cfg": sections_cfg,
        "cont": cont,
        "flags": list(full),
        "transparent_addr_range": draw(st.integers(0, 3)) == 0,
        "listing": L,
        "pattern": pattern,
        "ref_pattern": inline_shipped(pattern),
        "macros": use_macros,
        "mut": mut,
        "features": sorted(feats),
        "repeated_addresses": restart_at is not None,
    }


def broad_text(case):
    """The listing text of a broad case (byte-continuation lines and section blocks as drawn)."""
    from .gen_listing import att_view
    from .render import render

    return render(att_view(case["listing"]), cont=set(case.get("cont", ())), sections={k_: nm_ for k_, nm_ in case.get("section_breaks", [])} or None)
