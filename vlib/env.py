"""Locate the code under test and make sure it is the tree we think it is.

Registered commands never set VERIF_REPO; it exists so that sensitivity runs can
point a check at a scratch copy of the repository.
"""
import os
import subprocess
import sys

VERIF = os.path.dirname(os.path.dirname(os.path.abspath(__file__)))
REPO = os.path.abspath(os.environ.get("VERIF_REPO", "/repo"))
SRC = os.path.join(REPO, "src")
WORK_ROOT = os.path.join(VERIF, ".work")

if SRC not in sys.path or sys.path[0] != SRC:
    sys.path.insert(0, SRC)
os.environ["PYTHONPATH"] = SRC + (os.pathsep + os.environ["PYTHONPATH"] if os.environ.get("PYTHONPATH") else "")

if os.environ.get("VERIF_LINECOV"):
    from . import linecov as _linecov  # noqa: E402

    _linecov.install(SRC)

import jasm  # noqa: E402

if not os.path.abspath(jasm.__file__).startswith(SRC + os.sep):
    sys.stderr.write(f"HARNESS ERROR: jasm imported from {jasm.__file__}, expected under {SRC}\n")
    sys.exit(2)


def repo_state():
    def git(*a):
        try:
            return subprocess.run(["git", "-C", REPO, *a], capture_output=True, text=True, timeout=20).stdout.strip()
        except Exception:  # pragma: no cover
            return "?"

    return {"repo": REPO, "head": git("rev-parse", "HEAD"), "dirty": bool(git("status", "--porcelain", "--", "src"))}


def seed_value():
    try:
        return int(os.environ.get("VERIF_SEED", "1"))
    except ValueError:
        return 1
