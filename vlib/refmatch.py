"""Reference matcher: the meaning of the pattern DSL stated directly over instruction lists.

Written from the property statements (C01-C07, C11); shares nothing with JASM: no regular
expression, no stream string.  A listing is a list of (addr, mnemonic, [operand, ...]) with operands in
stream normal form.  M(node, i, env) is the set of (j, env'): node can consume instructions i..j-1.
It is nondeterministic-complete (a set of ends per start) so it never has to predict which end the
regex engine's priorities pick.
"""
from itertools import permutations

OPS = ("$and", "$or", "$not", "$and_any_order")

# ---- architectural register tables for the register-family captures (C05) ------------------------
GENREG = {
    r: {"64": f"r{r}x", "32": f"e{r}x", "16": f"{r}x", "8h": f"{r}h", "8l": f"{r}l"} for r in "abcd"
}
INDREG = {r: {"64": f"r{r}i", "32": f"e{r}i", "16": f"{r}i", "8l": f"{r}il"} for r in "sd"}
STACKREG = {"sp": {"64": "rsp", "32": "esp", "16": "sp", "8l": "spl"}}
BASEREG = {"bp": {"64": "rbp", "32": "ebp", "16": "bp", "8l": "bpl"}}
FAMILIES = {"&genreg": GENREG, "&indreg": INDREG, "&stackreg": STACKREG, "&basereg": BASEREG}
SUFFIXES = ("64", "32", "16", "8h", "8l")


def regcap_parts(name):
    """'&genreg-1.32' -> (family table, key '&genreg-1', width '32' | None); None if not a register capture."""
    for fam, table in FAMILIES.items():
        if name.startswith(fam):
            parts = name.split(".")
            width = None
            key = name
            if len(parts) > 1 and parts[-1].lower() in SUFFIXES:
                width = parts[-1].lower()
                key = ".".join(parts[:-1])
            return table, key, width
    return None


def _hex_literal_reading(s):
    """An operand name of the form <hex>h is the DSL's Intel-style spelling of the hexadecimal literal 0x<hex> (unit-tested in
    the repository: A3h -> 0xA3); it is then an operand name like any other."""
    if isinstance(s, str) and s.endswith("h") and len(s) > 1:
        try:
            int(s[:-1], 16)
            return "0x" + s[:-1]
        except ValueError:
            return s
    return s


def split_item(node):
    """node: str|int|dict -> (name, body, (min,max)); body: None | list | dict (for $deref)."""
    if isinstance(node, (str, int)):
        return node, None, (1, 1)
    keys = list(node.keys())
    name = keys[0]
    if name == "times" and len(keys) > 1:
        name = keys[1]  # a YAML mapping has no order: the sibling key `times` may be written before the item it belongs to
    body = node[name]
    times = None
    if "times" in node and name != "times":
        times = node["times"]
    elif isinstance(body, dict) and "times" in body and name != "$deref":
        times = body["times"]
        # an item's body that is {times: t} means "no operand list"; a group whose children are written as a mapping keeps them
        body = {k: v for k, v in body.items() if k != "times"} if name in ("$and", "$or", "$and_any_order", "$not") else None
    if times is None:
        t = (1, 1)
    elif isinstance(times, int):
        t = (times, times)
    else:
        t = (times.get("min", 1), times.get("max", 1))
    return name, body, t


def _envset(env, key, val):
    d = dict(env)
    d[key] = val
    return tuple(sorted(d.items()))


class Ref:
    def __init__(self, insts, mn_full=False, op_full=False, any_macro=None):
        """any_macro: the name (e.g. '@any') that stands for a one-field wildcard (C07), or None."""
        self.I = insts
        self.mn_full = mn_full
        self.op_full = op_full
        self.any = any_macro

    # ------------------------------------------------------------------ instruction level
    def m(self, node, i, env):
        name, body, (lo, hi) = split_item(node)
        res = set()
        frontier = {(i, env)}
        if lo == 0:
            res |= frontier
        for r in range(1, hi + 1):
            nxt = set()
            for (j, e) in frontier:
                nxt |= self.m1(name, body, j, e)
            frontier = nxt
            if not frontier:
                break
            if r >= lo:
                res |= frontier
        return res

    def m1(self, name, body, i, env):
        if name in ("$and", "$or", "$and_any_order") and isinstance(body, dict):
            # children written as a YAML mapping (`$and:` / `  push: [...]` / `  mov: [...]`): the same items in the written order
            body = [{k: v} for k, v in body.items()]
        if name == "$and":
            return self.seq(body, i, env)
        if name == "$or":
            out = set()
            for c in body:
                out |= self.m(c, i, env)
            return out
        if name == "$and_any_order":
            out = set()
            for p in permutations(range(len(body))):
                out |= self.seq([body[k] for k in p], i, env)
            return out
        if name == "$not":
            if i >= len(self.I):
                return set()
            if self.m(body[0], i, env):
                return set()
            return {(i + 1, env)}
        if i >= len(self.I):
            return set()
        _, mn, ops = self.I[i]
        if isinstance(name, str) and name.startswith("&"):
            txt = ("I", mn, tuple(ops))
            d = dict(env)
            if name in d:
                return {(i + 1, env)} if d[name] == txt else set()
            return {(i + 1, _envset(env, name, txt))}
        s = str(name)
        if self.any is not None and s == self.any:
            ok = len(mn) > 0
        else:
            ok = (s == mn) if self.mn_full else (s in mn)
        if not ok:
            return set()
        if not body:
            return {(i + 1, env)}
        outs = self.oseq(body, ops, 0, env)
        return {(i + 1, e) for (_, e) in outs}

    def seq(self, children, i, env):
        frontier = {(i, env)}
        for c in children:
            nxt = set()
            for (j, e) in frontier:
                nxt |= self.m(c, j, e)
            frontier = nxt
            if not frontier:
                break
        return frontier

    # ------------------------------------------------------------------ operand level
    def oseq(self, pats, ops, k, env):
        frontier = {(k, env)}
        for p in pats:
            nxt = set()
            for (j, e) in frontier:
                nxt |= self.o(p, ops, j, e)
            frontier = nxt
            if not frontier:
                break
        return frontier

    def o(self, p, ops, k, env):
        if isinstance(p, dict):
            name, body, (lo, hi) = split_item(p)
            if (lo, hi) != (1, 1):
                res = set()
                frontier = {(k, env)}
                if lo == 0:
                    res |= frontier
                for r in range(1, hi + 1):
                    nxt = set()
                    for (j, e) in frontier:
                        nxt |= self.o1(name, body, ops, j, e)
                    frontier = nxt
                    if not frontier:
                        break
                    if r >= lo:
                        res |= frontier
                return res
            return self.o1(name, body, ops, k, env)
        return self.o1(p, None, ops, k, env)

    def o1(self, name, body, ops, k, env):
        if name == "$or":
            out = set()
            for c in body:
                out |= self.o(c, ops, k, env)
            return out
        if name == "$and":
            return self.oseq(body, ops, k, env)
        if name == "$and_any_order":
            out = set()
            for perm in permutations(range(len(body))):
                out |= self.oseq([body[x] for x in perm], ops, k, env)
            return out
        if name == "$not":
            if k >= len(ops):
                return set()
            return set() if self.o(body[0], ops, k, env) else {(k + 1, env)}
        if name == "$deref":
            if k >= len(ops):
                return set()
            return {(k + 1, env)} if deref_match(body, ops[k]) else set()
        if k >= len(ops):
            return set()
        s = str(name)
        op = ops[k]
        if s.startswith("&"):
            rc = regcap_parts(s)
            if rc is not None:
                table, key, width = rc
                d = dict(env)
                cands = []
                for reg, names in table.items():
                    for w, nm in names.items():
                        if (width is None or w == width) and op == "%" + nm:
                            cands.append(reg)
                if not cands:
                    return set()
                reg = cands[0]
                if key in d:
                    return {(k + 1, env)} if d[key] == ("R", reg) else set()
                return {(k + 1, _envset(env, key, ("R", reg)))}
            d = dict(env)
            if s in d:
                return {(k + 1, env)} if d[s] == ("O", op) else set()
            if op == "":
                return set()
            return {(k + 1, _envset(env, s, ("O", op)))}
        if self.any is not None and s == self.any:
            return {(k + 1, env)} if op != "" else set()
        s = _hex_literal_reading(s)
        ok = (s == op) if self.op_full else (s in op)
        return {(k + 1, env)} if ok else set()

    # ------------------------------------------------------------------ whole rules
    def spans(self, pattern_list):
        top = {"$and": pattern_list}
        out = {}
        for i in range(len(self.I)):
            ends = {j for (j, _) in self.m(top, i, ())}
            if ends:
                out[i] = ends
        return out

    def found(self, pattern_list):
        top = {"$and": pattern_list}
        for i in range(len(self.I)):
            if self.m(top, i, ()):
                return True
        return False

    def spans_empty(self, pattern_list):
        """Can the rule match the empty sequence?"""
        return bool(Ref([], self.mn_full, self.op_full, self.any).m({"$and": pattern_list}, 0, ()))

    def nullable(self, pattern_list):
        """Can the rule match the empty sequence (at the end of the listing)?"""
        r = Ref([], self.mn_full, self.op_full, self.any)
        return bool(r.m({"$and": pattern_list}, 0, ()))


# ---- $deref (C06) -----------------------------------------------------------------------------


def _alts(v, pre):
    v = str(v)
    if pre == "0x" and v.startswith("-"):
        # "constants optionally without 0x": in a negative constant the 0x follows the sign (-8 is -0x8)
        return {"-" + x for x in _alts(v[1:], pre)}
    return {v, pre + v} if not v.startswith(pre) else {v, v[len(pre):]}


def _field_alternatives(v):
    """A $deref field value is a literal or [ {$or: [literal, ...]} ] (C03); the operator mapping may also be the value itself
    ({$or: [...]}, the one-element list written without its dash)."""
    if isinstance(v, dict) and list(v) == ["$or"]:
        v = [v]
    if isinstance(v, list) and len(v) == 1 and isinstance(v[0], dict) and list(v[0]) == ["$or"]:
        out = []
        for alt in v[0]["$or"]:
            out.extend(_field_alternatives(alt))
        return out
    return [v]


def deref_match(fields, op):
    """fields: dict of the four $deref keys; op: operand in stream normal form."""
    import itertools

    keys = [k for k in ("main_reg", "register_multiplier", "constant_multiplier", "constant_offset") if fields.get(k) is not None]
    choices = [_field_alternatives(fields[k]) for k in keys]
    if any(len(c) != 1 for c in choices):
        return any(_deref_match_literal(dict(zip(keys, combo)), op) for combo in itertools.product(*choices))
    return _deref_match_literal({k: c[0] for k, c in zip(keys, choices)}, op)


def _deref_match_literal(fields, op):
    a = fields.get("main_reg")
    b = fields.get("register_multiplier")
    c = fields.get("constant_multiplier")
    k = fields.get("constant_offset")
    if not (op.startswith("[") and op.endswith("]")):
        return False
    inner = op[1:-1]
    cands = set()
    for A in _alts(a, "%"):
        if b is not None and c is not None:
            for B in _alts(b, "%"):
                for C in _alts(c, "0x"):
                    s2 = f"{A}+{B}*{C}"
                    if k is not None:
                        for K in _alts(k, "0x"):
                            cands.add(f"{s2}+{K}")
                    else:
                        cands.add(s2)
        elif b is None and c is None:
            if k is not None:
                for K in _alts(k, "0x"):
                    cands.add(f"{A}+{K}")
            else:
                cands.add(A)
        elif c is None:
            # base + index without scale: the two-component form of 16-bit addressing, (a,b) / k(a,b)
            for B in _alts(b, "%"):
                if k is not None:
                    for K in _alts(k, "0x"):
                        cands.add(f"{A}+{B}+{K}")
                else:
                    cands.add(f"{A}+{B}")
        # c without b: no objdump operand has "the same present components"
    return inner in cands
