"""Campaign runner: sharding, seeding, counters, shrinking hook, replay files, evidence, known findings.

A property module (props/cNN_*.py) provides

  ID, LEVEL ("exploration" | "fault_enumeration"), RULE (str), ASSUMPTIONS (list[str])
  budget(tier) -> {"cases": int, ...}                 total Hypothesis examples over all shards
  strategy(tier) -> hypothesis strategy of JSON-serialisable *cases*
  evaluate(case) -> Eval                              runs JASM and the oracle on one case
  FLOORS: {tag: minimum fraction of evaluations}      (optional)
  extra(tier, seed, report) -> None                   (optional) exhaustive sub-enumerations etc.

Exit codes: 0 held / only known findings; 1 violation(s) not in known_findings.json; 2 harness error.
"""
import json
import multiprocessing as mp
import os
import sys
import time
import traceback
from collections import Counter

from . import env
from .model import canon, digest, hexdigest

KNOWN_PATH = os.path.join(env.VERIF, "known_findings.json")


class Eval:
    """Result of evaluating one case."""

    __slots__ = ("tags", "nontrivial", "deviations", "inconclusive", "sample", "subcases", "keys")

    def __init__(self):
        self.tags = []  # class labels for the histogram
        self.nontrivial = False  # by the property's stated rule
        self.deviations = []  # list of dicts {"kind":..., ...}; empty = property held on this case
        self.inconclusive = 0
        self.sample = None  # optional compact rendering for evidence samples
        self.subcases = 1  # how many (rule, listing, flags) verdicts this case decided
        self.keys = None  # optional list of hashable keys of the distinct non-trivial sub-cases

    def dev(self, kind, **kw):
        d = {"kind": kind}
        d.update(kw)
        self.deviations.append(d)


class Violation(Exception):
    pass


# ---------------------------------------------------------------------------------- known findings


def load_known():
    if not os.path.exists(KNOWN_PATH):
        return {"findings": []}
    with open(KNOWN_PATH) as f:
        return json.load(f)


def open_findings(prop_id):
    return [k for k in load_known().get("findings", []) if k.get("property") == prop_id and k.get("status") == "open"]


def fixed_findings(prop_id):
    return [k for k in load_known().get("findings", []) if k.get("property") == prop_id and k.get("status") == "fixed"]


def classify_known(prop, case, deviation, opens):
    """Return the id of the open finding whose signature covers this deviation, or None."""
    from . import known

    for k in opens:
        sig = k.get("signature") or {}
        pred = getattr(known, sig.get("predicate", ""), None)
        if pred is None:
            continue
        try:
            if pred(case, deviation, **sig.get("params", {})):
                return k["id"]
        except Exception:  # a broken predicate must never hide a violation
            continue
    return None


# ---------------------------------------------------------------------------------- one shard


def _shard(args):
    prop_name, tier, seed, shard, nshards, n_examples = args
    os.environ["PYTHONHASHSEED"] = "0"
    import importlib
    import hypothesis
    from hypothesis import HealthCheck, Phase, given, settings

    prop = importlib.import_module(f"props.{prop_name}")
    opens = open_findings(prop.ID)
    from . import prelude

    pre_kind = prelude.kind_for(seed, shard)
    pre_error = None
    try:
        prelude.run(pre_kind)  # the first JASM operation of this fresh process (vlib/prelude.py); must be invisible by C14
    except BaseException as exc:  # noqa: BLE001
        pre_error = "prelude %s: %r" % (pre_kind, exc)
    st = {
        "prelude": pre_kind,
        "evaluations": 0,
        "subcases": 0,
        "tags": Counter(),
        "nontrivial_hashes": set(),
        "nontrivial": 0,
        "inconclusive": 0,
        "excluded_known": Counter(),
        "samples": {},
        "violation": None,
        "error": pre_error,
        "shrink_calls": 0,
    }
    failing = {}  # case hash -> (size, case, deviation)
    shrink_budget = 400 if tier == "quick" else 3000

    def record(case, ev):
        st["evaluations"] += 1
        st["subcases"] += ev.subcases
        for t in ev.tags:
            st["tags"][t] += 1
        if ev.inconclusive:
            st["inconclusive"] += ev.inconclusive
        if ev.nontrivial:
            st["nontrivial"] += 1
            if ev.keys is not None:
                for k in ev.keys:
                    st["nontrivial_hashes"].add(digest(k))
            else:
                st["nontrivial_hashes"].add(digest(case))
            for t in ev.tags[:2]:
                if t not in st["samples"] and len(st["samples"]) < 6:
                    st["samples"][t] = ev.sample if ev.sample is not None else case

    def body(case):
        h = hexdigest(case)
        if failing:
            # shrinking: bounded, and never re-evaluate a case we have already judged
            st["shrink_calls"] += 1
            if h in failing:
                raise Violation(failing[h][2]["kind"])
            if st["shrink_calls"] > shrink_budget:
                return
        ev = prop.evaluate(case)
        if not failing:
            record(case, ev)
        for d in ev.deviations:
            kid = classify_known(prop, case, d, opens)
            if kid is not None:
                if not failing:
                    st["excluded_known"][kid] += 1
                continue
            failing[h] = (len(canon(case)), case, d)
            raise Violation(d["kind"])

    test = given(prop.strategy(tier))(body)
    test = settings(
        max_examples=n_examples,
        database=None,
        deadline=None,
        derandomize=False,
        report_multiple_bugs=False,
        print_blob=False,
        suppress_health_check=list(HealthCheck),
        phases=[Phase.generate, Phase.shrink],
    )(test)
    test = hypothesis.seed(seed * 1000003 + shard * 7919 + 17)(test)
    try:
        test()
    except Violation:
        pass
    except BaseException as exc:  # noqa: BLE001
        if not failing:
            st["error"] = "".join(traceback.format_exception(type(exc), exc, exc.__traceback__))[-4000:]
    if failing:
        size, case, dev = min(failing.values(), key=lambda t: t[0])
        st["violation"] = {"case": case, "deviation": dict(dev, shard_prelude=pre_kind) if pre_kind != "none" else dev}
    st["tags"] = dict(st["tags"])
    st["excluded_known"] = dict(st["excluded_known"])
    return st


# ---------------------------------------------------------------------------------- report object


class Report:
    def __init__(self, prop, tier, seed):
        self.prop, self.tier, self.seed = prop, tier, seed
        self.t0 = time.time()
        self.evaluations = 0
        self.subcases = 0
        self.tags = Counter()
        self.hashes = set()
        self.inconclusive = 0
        self.excluded = Counter()
        self.samples = []
        self.violations = []  # (case, deviation)
        self.known_lines = []
        self.errors = []
        self.extra = {}
        self.exhaustive_parts = []
        self.campaign_evaluations = 0  # Hypothesis cases only: the base of the class-floor fractions
        self.preludes = Counter()  # prelude kind -> number of shards that started with it

    def merge_shard(self, st):
        self.preludes[st.get("prelude", "none")] += 1
        self.evaluations += st["evaluations"]
        self.campaign_evaluations += st["evaluations"]
        self.subcases += st["subcases"]
        self.tags.update(st["tags"])
        self.hashes |= st["nontrivial_hashes"]
        self.inconclusive += st["inconclusive"]
        self.excluded.update(st["excluded_known"])
        for tag, s in st["samples"].items():
            if len(self.samples) < 5 and all(tag != t for t, _ in self.samples):
                self.samples.append((tag, s))
        if st["violation"]:
            self.violations.append((st["violation"]["case"], st["violation"]["deviation"]))
        if st["error"]:
            self.errors.append(st["error"])

    # used by extra()/replay code running in the parent
    def add_eval(self, case, ev, opens=None):
        self.evaluations += 1
        self.subcases += ev.subcases
        self.tags.update(ev.tags)
        self.inconclusive += ev.inconclusive
        if ev.nontrivial:
            if ev.keys is not None:
                for k in ev.keys:
                    self.hashes.add(digest(k))
            else:
                self.hashes.add(digest(case))
        for d in ev.deviations:
            kid = classify_known(self.prop, case, d, opens if opens is not None else open_findings(self.prop.ID))
            if kid is not None:
                self.excluded[kid] += 1
            else:
                self.violations.append((case, d))


def write_replay(prop_id, case, deviation, seed, tier):
    # sensitivity runs (VERIF_REPO set) keep their replay files apart from those of the real tree
    d = os.path.join(env.VERIF, "replays", prop_id) if "VERIF_REPO" not in os.environ else os.path.join(env.WORK_ROOT, "sens_replays", prop_id)
    os.makedirs(d, exist_ok=True)
    path = os.path.join(d, hexdigest(case) + ".json")
    rel = os.path.relpath(path, env.VERIF)
    with open(path, "w") as f:
        # "prelude": the first operation of the process in which the case failed (vlib/prelude.py); replays run it first
        json.dump({"property": prop_id, "tier": tier, "seed": seed, "prelude": (deviation or {}).get("shard_prelude", "none"), "case": case, "deviation": deviation}, f, indent=1, default=str)  # key order is part of a case (YAML mappings are ordered)
    return rel


def _replay_known(prop, rep):
    """Witness replay (DESIGN 1.1): open witnesses that still fail print KNOWN-FINDING; fixed ones must hold."""
    from . import known as known_mod  # noqa: F401

    for k in open_findings(prop.ID):
        w = k.get("witness")
        if w is None:
            continue
        ev = prop.evaluate(w)
        still = [d for d in ev.deviations]
        if still:
            # it must be covered by its own signature, otherwise it is a different violation
            uncovered = [d for d in still if classify_known(prop, w, d, [k]) is None]
            if uncovered:
                rep.violations.append((w, uncovered[0]))
            else:
                rep.known_lines.append(f"KNOWN-FINDING: property={prop.ID} {k['id']}: {k['what']}")
    for k in fixed_findings(prop.ID):
        w = k.get("witness")
        if w is None:
            continue
        ev = prop.evaluate(w)
        opens = open_findings(prop.ID)
        for d in ev.deviations:
            if classify_known(prop, w, d, opens) is None:
                rep.violations.append((w, d))
                break


def _corpus_files(prop_id):
    """-> (files replayed together, files that need a process of their own because they start with a prelude)"""
    d = os.path.join(env.VERIF, "corpus", prop_id)
    bulk, alone = [], []
    if os.path.isdir(d):
        for fn in sorted(os.listdir(d)):
            if fn.endswith(".json"):
                with open(os.path.join(d, fn)) as f:
                    obj = json.load(f)
                (alone if isinstance(obj, dict) and obj.get("prelude", "none") != "none" else bulk).append(fn)
    return bulk, alone


def _replay_corpus(prop, rep, files):
    d = os.path.join(env.VERIF, "corpus", prop.ID)
    opens = open_findings(prop.ID)
    n = 0
    for fn in files:
        with open(os.path.join(d, fn)) as f:
            obj = json.load(f)
        case = obj["case"] if isinstance(obj, dict) and "case" in obj else obj
        if isinstance(obj, dict) and obj.get("prelude", "none") != "none":
            from . import prelude

            prelude.run(obj["prelude"])
        ev = prop.evaluate(case)
        rep.add_eval(case, ev, opens)
        n += 1
    rep.extra["corpus_replayed"] = n


def _replays_worker(args):
    prop_name, tier, seed, known, files = args
    import importlib

    prop = importlib.import_module(f"props.{prop_name}")
    sub = Report(prop, tier, seed)
    if known:
        _replay_known(prop, sub)
    _replay_corpus(prop, sub, files)
    return {"evaluations": sub.evaluations, "subcases": sub.subcases, "tags": dict(sub.tags), "hashes": sub.hashes, "inconclusive": sub.inconclusive,
            "excluded": dict(sub.excluded), "violations": sub.violations, "known_lines": sub.known_lines, "extra": sub.extra}


def _replays_in_child(prop_name, rep):
    """Witness and corpus replays run in a child: the parent stays a process that never ran JASM, so every shard (and
    every process a property forks later) starts from a genuinely fresh state."""
    bulk, alone = _corpus_files(rep.prop.ID)
    tasks = [(prop_name, rep.tier, rep.seed, True, bulk)] + [(prop_name, rep.tier, rep.seed, False, [fn]) for fn in alone]
    replayed = 0
    with mp.get_context("fork").Pool(min(16, len(tasks)), maxtasksperchild=1) as pool:
        for r in pool.imap(_replays_worker, tasks, chunksize=1):
            rep.evaluations += r["evaluations"]
            rep.subcases += r["subcases"]
            rep.tags.update(r["tags"])
            rep.hashes |= r["hashes"]
            rep.inconclusive += r["inconclusive"]
            rep.excluded.update(r["excluded"])
            rep.violations.extend(r["violations"])
            rep.known_lines.extend(r["known_lines"])
            replayed += r["extra"].get("corpus_replayed", 0)
    rep.extra["corpus_replayed"] = replayed


def _cgf_stage(prop_name, prop, tier, seed, rep, runs, run_dir, workers=16):
    """Coverage-guided stage (vlib/cgf.py): `workers` libFuzzer processes of `runs` executions each, same strategy, same oracle."""
    import re
    import subprocess

    if not os.path.isdir(os.path.join(env.VERIF, ".deps", "atheris")):
        rep.extra["coverage_guided"] = {"skipped": "atheris is not installed under .deps (run ./setup.sh)"}
        return
    outdir = os.path.join(run_dir, "cgf")
    os.makedirs(outdir, exist_ok=True)
    procs = []
    for w in range(workers):
        log = open(os.path.join(outdir, f"log_{w}.txt"), "w")
        procs.append((w, log, subprocess.Popen([sys.executable, "-m", "vlib.cgf", prop_name, tier, str(seed), str(w), str(runs), outdir], cwd=env.VERIF,
                                               stdout=log, stderr=subprocess.STDOUT, env=dict(os.environ, PYTHONHASHSEED="0"))))
    summary = {"engine": "atheris (libFuzzer) over hypothesis.fuzz_one_input, JASM's Python modules instrumented", "workers": workers, "runs_per_worker": runs,
               "executions": 0, "in_domain_cases": 0, "coverage_increasing_inputs": 0, "edge_coverage_max": 0, "features_max": 0}
    for w, log, p in procs:
        rc = p.wait()
        log.close()
        text = open(os.path.join(outdir, f"log_{w}.txt"), errors="replace").read()
        m = re.findall(r"^#(\d+)\s+(?:DONE|pulse|NEW|REDUCE|INITED)\s+cov: (\d+) ft: (\d+)", text, re.M)
        if m:
            summary["edge_coverage_max"] = max(summary["edge_coverage_max"], max(int(x[1]) for x in m))
            summary["features_max"] = max(summary["features_max"], max(int(x[2]) for x in m))
        mm = re.search(r"stat::number_of_executed_units:\s+(\d+)", text)
        summary["executions"] += int(mm.group(1)) if mm else 0
        mm = re.search(r"stat::new_units_added:\s+(\d+)", text)
        summary["coverage_increasing_inputs"] += int(mm.group(1)) if mm else 0
        sp = os.path.join(outdir, f"stats_{w}.json")
        if not os.path.exists(sp):
            rep.errors.append(f"coverage-guided worker {w} left no statistics (exit {rc}):\n" + text[-1500:])
            continue
        st = json.load(open(sp))
        summary["in_domain_cases"] += st["evaluations"]
        rep.evaluations += st["evaluations"]
        rep.subcases += st["subcases"]
        rep.tags.update(st["tags"])
        rep.hashes |= {bytes.fromhex(h) for h in st["hashes"]}
        rep.inconclusive += st["inconclusive"]
        rep.excluded.update(st["excluded_known"])
        if st.get("violation"):
            rep.violations.append((st["violation"]["case"], st["violation"]["deviation"]))
        elif st.get("error"):
            rep.errors.append(f"coverage-guided worker {w}: " + st["error"])
        elif rc not in (0,):
            rep.errors.append(f"coverage-guided worker {w} exited with status {rc}:\n" + text[-1500:])
    rep.extra["coverage_guided"] = summary


def run_property(prop_name, tier, replay=None):
    import importlib

    os.environ.setdefault("PYTHONHASHSEED", "0")
    sys.path.insert(0, env.VERIF)
    prop = importlib.import_module(f"props.{prop_name}")
    seed = env.seed_value()

    if replay is not None:
        with open(replay) as f:
            obj = json.load(f)
        case = obj["case"] if isinstance(obj, dict) and "case" in obj else obj
        if isinstance(obj, dict) and "seed" in obj:
            os.environ["VERIF_SEED"] = str(obj["seed"])  # some checks derive shared inputs (e.g. the C14 pool) from the seed
        if isinstance(obj, dict) and obj.get("prelude", "none") != "none":
            from . import prelude

            prelude.run(obj["prelude"])
        ev = prop.evaluate(case)
        opens = open_findings(prop.ID)
        bad = [d for d in ev.deviations if classify_known(prop, case, d, opens) is None]
        for d in ev.deviations:
            print(("DEVIATION " if d in bad else "KNOWN ") + json.dumps(d, default=str)[:2000])
        if bad:
            print(f"VIOLATION property={prop.ID} replay={replay}")
            return 1
        print(f"replay: property {prop.ID} held on {replay}")
        return 0

    rep = Report(prop, tier, seed)
    import atexit
    import shutil
    import tempfile

    os.makedirs(env.WORK_ROOT, exist_ok=True)
    run_dir = tempfile.mkdtemp(prefix=f"run{os.getpid()}_", dir=env.WORK_ROOT)
    os.environ["VERIF_RUN_DIR"] = run_dir  # scratch directories of every process of this run live below it
    parent = os.getpid()
    atexit.register(lambda: os.getpid() == parent and shutil.rmtree(run_dir, ignore_errors=True))
    try:
        if hasattr(prop, "prepare"):
            prop.prepare(tier, seed)  # parent-only work that must be finished before any shard starts (shared immutable inputs)
        _replays_in_child(prop_name, rep)
        budget = prop.budget(tier)
        total = int(budget["cases"])
        nshards = int(budget.get("shards", min(16, os.cpu_count() or 1)))
        nshards = max(1, min(nshards, total))
        per = [total // nshards + (1 if i < total % nshards else 0) for i in range(nshards)]
        ctx = mp.get_context("fork")
        # one fresh process per shard (its first JASM operation is the shard's prelude)
        with ctx.Pool(nshards, maxtasksperchild=1) as pool:
            for st in pool.imap_unordered(_shard, [(prop_name, tier, seed, i, nshards, per[i]) for i in range(nshards)], chunksize=1):
                rep.merge_shard(st)
        if hasattr(prop, "extra"):
            prop.extra(tier, seed, rep)
        runs = int(os.environ.get("VERIF_CGF_RUNS", getattr(prop, "CGF_RUNS", {}).get(tier, 0)))
        if runs > 0:
            _cgf_stage(prop_name, prop, tier, seed, rep, runs, run_dir)
    except Exception:  # noqa: BLE001
        rep.errors.append(traceback.format_exc()[-4000:])
    return finish(prop, rep)


def finish(prop, rep):
    wall = time.time() - rep.t0
    ev_total = max(1, rep.campaign_evaluations or rep.evaluations)
    floors = getattr(prop, "FLOORS", {})
    shortfalls = {}
    gross = []
    for tag, frac in floors.items():
        got = rep.tags.get(tag, 0) / ev_total
        if got < frac:
            shortfalls[tag] = {"floor": frac, "measured": round(got, 4)}
            if got < frac / 4:
                gross.append(tag)
    replay_paths = []
    seen = set()
    for case, dev in sorted(rep.violations, key=lambda cd: len(canon(cd[0])))[:5]:
        if hasattr(prop, "export_case"):
            try:
                case = prop.export_case(case)  # self-contained form (e.g. C14: operations travel with their file contents)
            except Exception:  # noqa: BLE001
                rep.errors.append(traceback.format_exc()[-2000:])
        h = hexdigest(case)
        if h in seen:
            continue
        seen.add(h)
        replay_paths.append(write_replay(prop.ID, case, dev, rep.seed, rep.tier))
    coverage = {
        "evaluations": rep.evaluations,
        "verdicts_compared": rep.subcases,
        "distinct_nontrivial": len(rep.hashes),
        "rule": prop.RULE,
        "samples": [{"class": t, "case": s} for t, s in rep.samples] or [{"note": "no non-trivial sample recorded"}],
        "classes": dict(sorted(rep.tags.items())),
        "floor_shortfalls": shortfalls,
        "inconclusive": rep.inconclusive,
        "excluded_known": dict(rep.excluded),
        "known_findings_reported": rep.known_lines,
        "exhaustive": bool(rep.exhaustive_parts) and getattr(prop, "ALL_EXHAUSTIVE", False),
        "exhaustive_parts": rep.exhaustive_parts,
        "shard_preludes": dict(rep.preludes),
        "repo": env.repo_state(),
    }
    coverage.update(rep.extra)
    evidence = {
        "property_id": prop.ID,
        "tier": rep.tier,
        "seed": rep.seed,
        "level": prop.LEVEL,
        "coverage": coverage,
        "assumptions": list(getattr(prop, "ASSUMPTIONS", [])),
        "wall_s": round(wall, 2),
        "violations": len(replay_paths),
    }
    # sensitivity runs (VERIF_REPO set) must not overwrite the evidence of the real tree
    evdir = os.path.join(env.VERIF, "evidence") if "VERIF_REPO" not in os.environ else os.path.join(env.WORK_ROOT, "sens_evidence")
    os.makedirs(evdir, exist_ok=True)
    with open(os.path.join(evdir, f"{prop.ID}.json"), "w") as f:
        json.dump(evidence, f, indent=1, default=str)
        f.write("\n")
    for line in rep.known_lines:
        print(line)
    print(
        f"{prop.ID} {rep.tier} seed={rep.seed}: {rep.evaluations} cases, {rep.subcases} verdicts, "
        f"{len(rep.hashes)} distinct non-trivial, {rep.inconclusive} inconclusive, excluded_known={dict(rep.excluded)}, {wall:.1f}s"
    )
    if rep.errors:
        for e in rep.errors[:2]:
            sys.stderr.write("HARNESS ERROR:\n" + e[-1500:] + "\n")
        if len(rep.errors) > 2:
            sys.stderr.write(f"... and {len(rep.errors) - 2} more harness errors\n")
        if not replay_paths:
            return 2
    if replay_paths:
        for p in replay_paths:
            print(f"VIOLATION property={prop.ID} replay={p}")
        return 1
    if gross:
        sys.stderr.write(f"HARNESS ERROR: generator classes far below their floors: {gross}\n")
        return 2
    if os.environ.get("VERIF_STRICT") == "1" and shortfalls:
        sys.stderr.write(f"STRICT: floor shortfalls {shortfalls}\n")
        return 2
    if rep.evaluations and rep.inconclusive > max(1, rep.subcases) * 0.001:
        sys.stderr.write(f"HARNESS ERROR: too many inconclusive cases ({rep.inconclusive})\n")
        return 2
    return 0
