"""'Describe a window, then break it' (DESIGN 2.2): strategies that build rules from a listing.

All functions take `draw`; every random choice is a Hypothesis draw.
"""
import re

from hypothesis import strategies as st

from .gen_listing import MNEMONICS, OPERANDS

_LIT = re.compile(r"[A-Za-z0-9%:_-]+\Z")


def is_hex_literal_name(s):
    """`A3h`, `ah`, `10h`: the DSL's Intel-style hex literal spelling for operands (reserved syntax)."""
    if not s.endswith("h"):
        return False
    try:
        int(s[:-1], 16)
        return True
    except ValueError:
        return False


def lit_ok(s, operand=True):
    """C01's 'literal (regex-metacharacter-free) name'."""
    if not isinstance(s, str) or not s or not _LIT.match(s):
        return False
    if s[0] in "$&@" or s == "times":
        return False
    if operand and is_hex_literal_name(s):
        return False
    return True


def substr(draw, s, full=False):
    if full or len(s) <= 1 or draw(st.integers(0, 3)) == 0:
        return s
    i = draw(st.integers(0, len(s) - 1))
    j = draw(st.integers(i + 1, len(s)))
    return s[i:j]


def maybe_int(draw, s):
    """A purely decimal name may be written as a YAML int."""
    if s.isdigit() and (s == "0" or not s.startswith("0")) and draw(st.booleans()):
        return int(s)
    return s


def describe_operand(draw, o, full=False):
    """A literal name occurring in (or equal to) operand o, or None if o cannot be described literally."""
    for _ in range(3):
        s = substr(draw, o, full)
        if lit_ok(s):
            return maybe_int(draw, s)
    if lit_ok(o):
        return o
    # longest literal run inside o
    runs = [r for r in re.findall(r"[A-Za-z0-9%:_-]+", o) if lit_ok(r)]
    if runs and not full:
        return max(runs, key=len)
    return None


def describe_inst(draw, inst, full=(False, False), max_ops=None, force_ops=False):
    """item (str | {name: [operand names]}) that matches instruction `inst` = (addr, mnemonic, ops_norm)."""
    _, m, ops = inst
    name = m
    if not full[0]:
        for _ in range(3):
            name = substr(draw, m)
            if lit_ok(name, operand=False):
                break
        else:
            name = m
    hi = len(ops) if max_ops is None else min(len(ops), max_ops)
    k = draw(st.integers(1 if (force_ops and hi) else 0, hi))
    pats = []
    for o in ops[:k]:
        s = describe_operand(draw, o, full[1])
        if s is None:
            break
        pats.append(s)
    if not pats:
        return name
    return {name: pats}


@st.composite
def decoy_item(draw):
    m = draw(st.sampled_from(MNEMONICS + ["zz", "qq"]))
    if draw(st.booleans()):
        return m
    return {m: draw(st.lists(st.sampled_from(["rax", "%r8", "0x1", "zz", 1, "rbp", "%eax"]), min_size=1, max_size=2))}


def decoy_operand(draw):
    return draw(st.sampled_from(["zz", "qq", "%r9", "0x77", "rax", "0x1", "%eax", 1]))


def with_times(node, t):
    """Attach `times` to a node: inside the body for operand-less items, sibling key otherwise."""
    if isinstance(node, (str, int)):
        return {node: {"times": t}}
    d = dict(node)
    d["times"] = t
    return d


def listing_decoy(draw, L, full):
    """Decoy alternative: half the time a vocabulary item, half the time the description of some instruction of L."""
    if L and draw(st.booleans()):
        return describe_inst(draw, L[draw(st.integers(0, len(L) - 1))], full)
    return draw(decoy_item())


def describe_window(draw, L, i, j, full, allow=frozenset(), depth=0, max_depth=2):
    """List of pattern nodes matching L[i:j] (norm view) by construction, modulo decoys.

    allow: subset of {"$and", "$or", "$and_any_order", "$not", "times", "gtimes"}.
    """
    nodes = []
    k = i
    choices = ["item", "item", "item"] + sorted(allow - {"times"})
    while k < j:
        choice = draw(st.sampled_from(choices)) if depth < max_depth else "item"
        if choice == "item":
            r = 1
            while k + r < j and L[k + r][1:] == L[k][1:]:
                r += 1
            node = describe_inst(draw, L[k], full)
            if r > 1 and "times" in allow and draw(st.booleans()):
                use = draw(st.integers(1, r))
                if draw(st.booleans()):
                    t = use
                else:
                    t = {"min": draw(st.integers(0, use)), "max": draw(st.integers(use, use + 1))}
                node = with_times(node, t)
                k += use
            else:
                k += 1
            nodes.append(node)
        elif choice == "$and":
            e = draw(st.integers(k + 1, j))
            sub = describe_window(draw, L, k, e, full, allow, depth + 1, max_depth)
            nodes.append({"$and": sub})
            k = e
        elif choice == "$or":
            e = draw(st.integers(k + 1, min(j, k + 2)))
            sub = describe_window(draw, L, k, e, full, allow, depth + 1, max_depth)
            good = sub[0] if len(sub) == 1 else {"$and": sub}
            alts = [listing_decoy(draw, L, full) for _ in range(draw(st.integers(0, 2)))]
            alts.insert(draw(st.integers(0, len(alts))), good)
            nodes.append({"$or": alts})
            k = e
        elif choice == "$and_any_order":
            e = draw(st.integers(k + 1, min(j, k + 3)))
            subs = []
            kk = k
            while kk < e:
                ee = draw(st.integers(kk + 1, e))
                s = describe_window(draw, L, kk, ee, full, allow, depth + 1, max_depth)
                subs.append(s[0] if len(s) == 1 else {"$and": s})
                kk = ee
            subs = list(draw(st.permutations(subs)))
            nodes.append({"$and_any_order": subs})
            k = e
        elif choice == "$not":
            nodes.append({"$not": [listing_decoy(draw, L, full)]})
            k += 1
        elif choice == "gtimes":
            w = draw(st.integers(1, min(2, j - k)))
            r = 1
            base = [x[1:] for x in L[k:k + w]]
            while k + (r + 1) * w <= j and [x[1:] for x in L[k + r * w:k + (r + 1) * w]] == base:
                r += 1
            use = draw(st.integers(1, r))
            sub = describe_window(draw, L, k, k + w, full, allow - {"gtimes", "times"}, depth + 1, max_depth)
            kind = draw(st.sampled_from(["$and", "$or", "$and_any_order"]))
            if kind == "$or":
                good = sub[0] if len(sub) == 1 else {"$and": sub}
                alts = draw(st.lists(decoy_item(), max_size=1))
                alts.insert(draw(st.integers(0, len(alts))), good)
                body = alts
            elif kind == "$and_any_order":
                body = list(draw(st.permutations(sub)))
            else:
                body = sub
            t = use if draw(st.booleans()) else {"min": draw(st.integers(1, use)), "max": draw(st.integers(use, use + 1))}
            nodes.append({kind: body, "times": t})
            k += use * w
    return nodes


def random_item(draw):
    """An item unrelated to any listing (vocabulary names)."""
    m = draw(st.sampled_from(MNEMONICS))
    name = substr(draw, m)
    if not lit_ok(name, operand=False):
        name = m
    n = draw(st.sampled_from([0, 0, 1, 2]))
    pats = []
    for _ in range(n):
        o = draw(st.sampled_from(OPERANDS))[1]
        s = describe_operand(draw, o)
        if s is not None:
            pats.append(s)
    return {name: pats} if pats else name


# ---------------------------------------------------------------------------------- operand-level groups


def describe_operands_grouped(draw, ops, full=False, depth=0, max_depth=2, allow=("$or", "$and", "$and_any_order"), exact=False):
    """(patterns, k): operand patterns, possibly using operand-level operators, that match ops[0:k] by construction.

    exact=True asks for k == len(ops) (returns None if some operand cannot be described literally).
    """
    n = len(ops)
    if n == 0:
        return [], 0
    stop = n if exact else draw(st.integers(1, n))
    pats = []
    k = 0
    while k < stop:
        choice = draw(st.sampled_from(["name", "name"] + list(allow))) if depth < max_depth else "name"
        if choice == "name":
            s = describe_operand(draw, ops[k], full)
            if s is None:
                break
            pats.append(s)
            k += 1
        elif choice == "$or":
            e = draw(st.integers(k + 1, min(stop, k + 2)))
            sub = describe_operands_grouped(draw, ops[k:e], full, depth + 1, max_depth, allow, exact=True)
            if sub is None:
                break
            good = sub[0][0] if len(sub[0]) == 1 else {"$and": sub[0]}
            alts = [decoy_operand(draw) for _ in range(draw(st.integers(0, 2)))]
            if isinstance(good, str) and len(good) > 1 and draw(st.booleans()):
                pre = good[:draw(st.integers(1, len(good) - 1))]  # an alternative that is a prefix of the good one
                if lit_ok(pre):
                    alts.append(pre)
            alts.insert(draw(st.integers(0, len(alts))), good)
            pats.append({"$or": alts})
            k = e
        elif choice == "$and":
            e = draw(st.integers(k + 1, stop))
            sub = describe_operands_grouped(draw, ops[k:e], full, depth + 1, max_depth, allow, exact=True)
            if sub is None:
                break
            pats.append({"$and": sub[0]})
            k = e
        elif choice == "$and_any_order":
            e = draw(st.integers(k + 1, min(stop, k + 3)))
            subs = []
            kk = k
            while kk < e:
                ee = draw(st.integers(kk + 1, e))
                sub = describe_operands_grouped(draw, ops[kk:ee], full, depth + 1, max_depth, allow, exact=True)
                if sub is None:
                    subs = None
                    break
                subs.append(sub[0][0] if len(sub[0]) == 1 else {"$and": sub[0]})
                kk = ee
            if subs is None:
                break
            pats.append({"$and_any_order": list(draw(st.permutations(subs)))})
            k = e
    if exact and k != n:
        return None
    return pats, k
