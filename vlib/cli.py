import os
import sys

VERIF = os.path.dirname(os.path.dirname(os.path.abspath(__file__)))
sys.path.insert(0, VERIF)

PROPS = {
    "C01": "c01_sequence",
    "C02": "c02_times",
    "C03": "c03_operators",
    "C04": "c04_not",
    "C05": "c05_captures",
    "C06": "c06_deref",
    "C07": "c07_alignment",
    "C08": "c08_lines",
    "C09": "c09_operands",
    "C10": "c10_stream",
    "C11": "c11_scan",
    "C12": "c12_modes",
    "C13": "c13_macros",
    "C14": "c14_histories",
    "C15": "c15_binary",
    "C16": "c16_presentation",
    "C17": "c17_faults",
    "C18": "c18_addr_range",
    "C19": "c19_unresolved",
    "C20": "c20_cli",
}


def main(argv):
    if len(argv) < 2 or argv[0] not in PROPS:
        sys.stderr.write("usage: check <ID> <quick|thorough> | check <ID> --replay <file>\nknown ids: %s\n" % " ".join(sorted(PROPS)))
        return 2
    from vlib import runner

    pid = argv[0]
    if argv[1] == "--replay":
        return runner.run_property(PROPS[pid], "quick", replay=argv[2])
    tier = argv[1]
    if tier not in ("quick", "thorough"):
        sys.stderr.write("tier must be quick or thorough\n")
        return 2
    os.environ["VERIF_TIER"] = tier
    return runner.run_property(PROPS[pid], tier)


if __name__ == "__main__":
    try:
        rc = main(sys.argv[1:])
    except SystemExit:
        raise
    except BaseException:  # noqa: BLE001
        import traceback

        traceback.print_exc()
        rc = 2
    sys.exit(rc)
