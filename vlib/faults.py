"""Fault injection helpers for C17: unreadable files, fake/absent disassemblers."""
import ctypes
import os
import pickle
import stat

CAP_DAC_OVERRIDE = 1
CAP_DAC_READ_SEARCH = 2


def _drop_dac_caps():
    """Drop CAP_DAC_OVERRIDE / CAP_DAC_READ_SEARCH from this process (uid 0 otherwise ignores file modes). Returns True on success."""
    libc = ctypes.CDLL(None, use_errno=True)

    class Hdr(ctypes.Structure):
        _fields_ = [("version", ctypes.c_uint32), ("pid", ctypes.c_int)]

    class Data(ctypes.Structure):
        _fields_ = [("effective", ctypes.c_uint32), ("permitted", ctypes.c_uint32), ("inheritable", ctypes.c_uint32)]

    # also remove them from the bounding set, so that a child exec'ed by uid 0 (objdump) does not get them back
    for cap in (CAP_DAC_OVERRIDE, CAP_DAC_READ_SEARCH):
        if libc.prctl(24, cap, 0, 0, 0) != 0:  # PR_CAPBSET_DROP
            return False
    hdr = Hdr(0x20080522, 0)
    data = (Data * 2)()
    if libc.capget(ctypes.byref(hdr), data) != 0:
        return False
    mask = ~((1 << CAP_DAC_OVERRIDE) | (1 << CAP_DAC_READ_SEARCH)) & 0xFFFFFFFF
    data[0].effective &= mask
    data[0].permitted &= mask
    data[0].inheritable &= mask
    return libc.capset(ctypes.byref(hdr), data) == 0


def run_without_dac(func):
    """Run func() in a forked child that cannot bypass file permissions. -> ('done', result) | ('unavailable', why)"""
    r, w = os.pipe()
    pid = os.fork()
    if pid == 0:
        os.close(r)
        try:
            if os.geteuid() == 0 and not _drop_dac_caps():
                out = ("unavailable", "capset refused")
            else:
                out = ("done", func())
        except BaseException as exc:  # noqa: BLE001
            out = ("unavailable", f"child failed: {type(exc).__name__}: {exc}")
        try:
            os.write(w, pickle.dumps(out))
        finally:
            os._exit(0)
    os.close(w)
    buf = b""
    while True:
        chunk = os.read(r, 65536)
        if not chunk:
            break
        buf += chunk
    os.close(r)
    os.waitpid(pid, 0)
    if not buf:
        return ("unavailable", "no answer from child")
    return pickle.loads(buf)


def make_fake_objdump(dirpath, behaviour, real_output=""):
    """Create an executable `objdump` in dirpath that misbehaves: 'exit1' | 'exit3' | 'signal' | 'half-then-fail' | 'banner-then-fail'."""
    os.makedirs(dirpath, exist_ok=True)
    p = os.path.join(dirpath, "objdump")
    half = real_output[: len(real_output) // 2]
    data = os.path.join(dirpath, "half.txt")
    with open(data, "w") as f:
        f.write(half if behaviour == "half-then-fail" else "\nx.o:     file format elf64-x86-64\n\n")
    body = {
        "exit1": "echo 'objdump: x: file format not recognized' >&2\nexit 1\n",
        "exit3": "exit 3\n",
        "signal": "kill -SEGV $$\n",
        "half-then-fail": f"cat '{data}'\necho 'objdump: error' >&2\nexit 1\n",
        "banner-then-fail": f"cat '{data}'\necho \"objdump: section '.x' mentioned in a -j option, but not found in any input file\" >&2\nexit 1\n",
    }[behaviour]
    with open(p, "w") as f:
        f.write("#!/bin/sh\n" + body)
    os.chmod(p, os.stat(p).st_mode | stat.S_IXUSR | stat.S_IXGRP | stat.S_IXOTH)
    return p
