#!/usr/bin/env python3
"""Turn seeded changes into a seconds-long regression tier: one saved failing input per change.

  tools/harvest_corpus.py [--seed N] [name-prefix ...]

For each /verif/seeded/<name>/ (patch.diff + meta.json): a scratch copy of /repo's tracked tree gets the patch, the
property's quick check runs against it (VERIF_REPO), and the replay files it reports are re-executed one by one without
Hypothesis (`./check <ID> --replay f`): a file is kept only if it FAILS on the patched copy and HOLDS on the unchanged
tree.  The smallest such file is stored as /verif/corpus/<ID>/<name>.json (with its origin recorded); the runner replays
everything under corpus/<ID>/ at the start of both tiers.  Nothing is stored for a change whose check produced no
self-contained replay; those are listed at the end.  Never touches /repo.
"""
import json
import os
import re
import shutil
import subprocess
import sys
import tempfile

VERIF = os.path.dirname(os.path.dirname(os.path.abspath(__file__)))


def harvest(name, seed):
    d = os.path.join(VERIF, "seeded", name)
    meta = json.load(open(os.path.join(d, "meta.json")))
    pid = meta["property"]
    base = tempfile.mkdtemp(prefix="jasm_harv_", dir="/tmp")
    try:
        copy = os.path.join(base, "repo")
        os.makedirs(copy)
        subprocess.run(f"git -C /repo ls-files -z src tests/macros | (cd /repo && xargs -0 cp --parents -t {copy})", shell=True, check=True)
        r = subprocess.run(["patch", "-p1", "-s", "-d", copy, "-i", os.path.join(d, "patch.diff")], capture_output=True, text=True)
        if r.returncode != 0:
            return "patch failed"
        env_p = dict(os.environ, VERIF_REPO=copy, VERIF_SEED=str(seed))
        env_c = dict(os.environ, VERIF_SEED=str(seed))
        env_c.pop("VERIF_REPO", None)
        p = subprocess.run(["./check", pid, "quick"], cwd=VERIF, env=env_p, capture_output=True, text=True)
        paths = re.findall(r"^VIOLATION property=\S+ replay=(\S+)", p.stdout, re.M)
        if p.returncode != 1 or not paths:
            return f"not caught (exit {p.returncode})"
        good = []
        for rel in paths:
            f = os.path.join(VERIF, rel)
            if not os.path.exists(f):
                continue
            a = subprocess.run(["./check", pid, "--replay", f], cwd=VERIF, env=env_p, capture_output=True, text=True)
            b = subprocess.run(["./check", pid, "--replay", f], cwd=VERIF, env=env_c, capture_output=True, text=True)
            if a.returncode == 1 and b.returncode == 0:
                good.append((os.path.getsize(f), f))
        if not good:
            return "caught, but no replay file reproduces stand-alone"
        good.sort()
        obj = json.load(open(good[0][1]))
        obj["origin"] = f"seeded/{name}: minimal failing case of `./check {pid} quick` (VERIF_SEED={seed}) against the patched copy; holds on the unchanged tree"
        out = os.path.join(VERIF, "corpus", pid)
        os.makedirs(out, exist_ok=True)
        with open(os.path.join(out, name + ".json"), "w") as fh:
            json.dump(obj, fh, indent=1, default=str)
            fh.write("\n")
        return f"stored ({good[0][0]} bytes)"
    finally:
        shutil.rmtree(base, ignore_errors=True)


def main(argv):
    seed = 1
    if "--seed" in argv:
        i = argv.index("--seed")
        seed = int(argv[i + 1])
        del argv[i:i + 2]
    force = "--force" in argv
    argv = [a for a in argv if a != "--force"]
    missing = []
    for name in sorted(os.listdir(os.path.join(VERIF, "seeded"))):
        d = os.path.join(VERIF, "seeded", name)
        if not os.path.exists(os.path.join(d, "patch.diff")):
            continue
        if argv and not any(name.startswith(p) for p in argv):
            continue
        pid = json.load(open(os.path.join(d, "meta.json")))["property"]
        if not force and os.path.exists(os.path.join(VERIF, "corpus", pid, name + ".json")):
            print(f"{name}: already stored", flush=True)
            continue
        res = harvest(name, seed)
        print(f"{name}: {res}", flush=True)
        if not res.startswith("stored"):
            missing.append(name)
    print("without a corpus entry:", missing)
    return 0


if __name__ == "__main__":
    sys.exit(main(sys.argv[1:]))
