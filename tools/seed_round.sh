#!/bin/sh
# tools/seed_round.sh <agent root> <name offset> <ID>...   e.g. tools/seed_round.sh /tmp/seed4 7 C02 C09
# Confirms the three deliveries of each listed agent directory as <ID>-<offset+1..3> (tools/confirm_seed.py) and sweeps them (quick tier).
cd "$(dirname "$0")/.." || exit 2
root="$1"; off="$2"; shift 2
for id in "$@"; do
  names=""
  for n in 1 2 3; do
    name="$id-$((n+off))"
    names="$names $name"
    if [ -d "seeded/$name" ]; then echo "$name: already filed"; continue; fi
    if [ ! -f "$root/$id/patch$n.diff" ]; then echo "$name: no patch"; continue; fi
    python3 tools/confirm_seed.py "$root/$id" $n $name > "$root/$id/confirm$n.log" 2>&1
    tail -1 "$root/$id/confirm$n.log" | sed "s/^/$name: /"
  done
  python3 tools/sweep.py quick $names
done
