#!/usr/bin/env python3
"""Run every confirmed seeded change (and every hand-written mutant) against its property's check.

  tools/sweep.py [quick|thorough] [name-prefix ...]

For each /verif/seeded/<name>/ and /verif/mutants/<name>/ (patch.diff + meta.json naming the property): a scratch copy of
/repo's tracked tree gets the patch, `./check <ID> <tier>` runs with VERIF_REPO pointing at it, the copy is
removed.  meta.json's "caught_by" is updated; a table is printed.  Exit 0 iff every change was caught.
"""
import json
import os
import shutil
import subprocess
import sys
import tempfile

VERIF = os.path.dirname(os.path.dirname(os.path.abspath(__file__)))


def run_one(d, tier, extra_ids=()):
    meta_p = os.path.join(d, "meta.json")
    meta = json.load(open(meta_p))
    if meta.get("obsolete"):
        return {"obsolete": meta["obsolete"].get("reason", "")[:80]}  # a later repair removed what the change relied on
    ids = [meta["property"]] + [i for i in meta.get("also_try", []) if i != meta["property"]] + list(extra_ids)
    base = tempfile.mkdtemp(prefix="jasm_sweep_", dir="/tmp")
    res = {}
    try:
        copy = os.path.join(base, "repo")
        os.makedirs(copy)
        subprocess.run(f"git -C /repo ls-files -z src tests/macros | (cd /repo && xargs -0 cp --parents -t {copy})", shell=True, check=True)
        r = subprocess.run(["patch", "-p1", "-s", "-d", copy, "-i", os.path.join(d, "patch.diff")], capture_output=True, text=True)
        if r.returncode != 0:
            return {"patch": "FAILED: " + (r.stdout + r.stderr)[-200:]}
        for pid in ids:
            p = subprocess.run(["./check", pid, tier], cwd=VERIF, env=dict(os.environ, VERIF_REPO=copy), capture_output=True, text=True)
            res[pid] = p.returncode
    finally:
        shutil.rmtree(base, ignore_errors=True)
    caught = sorted(pid for pid, rc in res.items() if rc == 1)
    meta["caught_by"] = [f"{pid} {tier}" for pid in caught]
    meta["sweep"] = {pid: {0: "missed", 1: "caught", 2: "harness error"}.get(rc, str(rc)) for pid, rc in res.items()}
    with open(meta_p, "w") as f:
        json.dump(meta, f, indent=1)
    return res


def main(argv):
    tier = "quick"
    if argv and argv[0] in ("quick", "thorough"):
        tier = argv.pop(0)
    prefixes = argv
    ok = True
    for kind in ("seeded", "mutants"):
        root = os.path.join(VERIF, kind)
        if not os.path.isdir(root):
            continue
        for name in sorted(os.listdir(root)):
            d = os.path.join(root, name)
            if not os.path.exists(os.path.join(d, "patch.diff")):
                continue
            if prefixes and not any(name.startswith(p) for p in prefixes):
                continue
            res = run_one(d, tier)
            print(f"{kind}/{name}: {res}", flush=True)
            own = json.load(open(os.path.join(d, "meta.json")))["property"]
            ok = ok and (res.get(own) == 1 or "obsolete" in res)
    return 0 if ok else 1


if __name__ == "__main__":
    sys.exit(main(sys.argv[1:]))
