#!/usr/bin/env python3
"""File a seeded change that was re-made on a new /repo HEAD (its intent unchanged).

  tools/refile_rebased.py <dir with N.diff files> <name>...

For each name: scratch worktree of /repo HEAD; the seed's own demo exits 0 there; the new diff applies; the test suite gives the
baseline result; the demo exits non-zero; after reverting it exits 0 again.  Only then seeded/<name>/patch.diff is replaced and
meta.json gets a `rebased` entry.  The worktree is removed afterwards.
"""
import json
import os
import shutil
import subprocess
import sys
import tempfile

sys.path.insert(0, os.path.dirname(os.path.abspath(__file__)))
from confirm_seed import BASE, run_tests, sh  # noqa: E402

VERIF = os.path.dirname(os.path.dirname(os.path.abspath(__file__)))


def main(argv):
    src, names = argv[0], argv[1:]
    rc = 0
    for name in names:
        new = os.path.join(src, name + ".diff")
        d = os.path.join(VERIF, "seeded", name)
        demo = os.path.join(d, "demo.py")
        base = tempfile.mkdtemp(prefix="jasm_refile_", dir="/tmp")
        wt = os.path.join(base, "wt")
        try:
            assert sh(f"git -C /repo worktree add --detach {wt} HEAD").returncode == 0
            head = sh("git -C /repo rev-parse --short HEAD").stdout.strip()
            env = f"PYTHONPATH={wt}/src"
            d0 = sh(f"cd {base} && {env} /venv/bin/python {demo}")
            a = sh(f"git -C {wt} apply {new}")
            passed = run_tests(wt) if a.returncode == 0 else set()
            missing = sorted(set(BASE["stable_pass"]) - passed)
            d1 = sh(f"cd {base} && {env} /venv/bin/python {demo}")
            diff = sh(f"git -C {wt} diff HEAD").stdout
            sh(f"git -C {wt} checkout -- . && git -C {wt} reset -q --hard")
            d2 = sh(f"cd {base} && {env} /venv/bin/python {demo}")
            ok = d0.returncode == 0 and a.returncode == 0 and not missing and d1.returncode != 0 and d2.returncode == 0
            log = [f"clean tree ({head}): demo exit {d0.returncode}", f"apply: exit {a.returncode}", f"pytest with patch: {len(passed)} passed, baseline tests not passing: {missing}",
                   f"patched tree: demo exit {d1.returncode}: {(d1.stdout + d1.stderr).strip()[-200:]}", f"reverted: demo exit {d2.returncode}"]
            if ok:
                with open(os.path.join(d, "patch.diff"), "w") as f:
                    f.write(diff)
                m = json.load(open(os.path.join(d, "meta.json")))
                m.setdefault("rebased", [])
                if not isinstance(m["rebased"], list):
                    m["rebased"] = [m["rebased"]]
                m["rebased"].append({"onto": head, "confirmed": log})
                json.dump(m, open(os.path.join(d, "meta.json"), "w"), indent=1)
                print(name, "REFILED on", head)
            else:
                rc = 1
                print(name, "NOT CONFIRMED:", log)
        finally:
            sh(f"git -C /repo worktree remove --force {wt}")
            shutil.rmtree(base, ignore_errors=True)
    return rc


if __name__ == "__main__":
    sys.exit(main(sys.argv[1:]))
