#!/usr/bin/env python3
"""Regenerate /verif/MANIFEST.json from the table below and validate it against the schema."""
import json
import os
import sys

VERIF = os.path.dirname(os.path.dirname(os.path.abspath(__file__)))

CHECKS = {
    "C01": dict(
        cat="exploration",
        technique="property-based testing (Hypothesis): describe-a-window generator with near-miss mutators vs. an independent containment oracle, all 4 flag settings",
        text="Generated (rule, listing) pairs, each evaluated under all four full-match flag settings in bool and all-matches mode, "
        "compared with a containment predicate written directly over instruction lists (no regex, no stream); every reported match must be a "
        "window the predicate accepts. Exploration is the right level: the domain (all literal rules x all listings) is infinite and the oracle is exact.",
        note="Trusted: the ~250-line reference matcher, the hand-written operand normal-form table, Hypothesis. Bounds: listings <= 14 instructions, "
        "rules <= 4 items; names restricted to the literal alphabet the statement names.",
        ref="DESIGN.md 4/C01",
    ),
    "C02": dict(
        cat="exploration",
        technique="property-based testing (Hypothesis): sandwich listings A X^r B with r around both bounds vs. reference matcher, plus metamorphic unrolling (X times n == X written n times) and spelling relations",
        text="Generated rules A, X<times>, B over six kinds of X (item, item+operands, $and, $or, $not, $and_any_order), integer and {min,max} bounds 0..6, "
        "both YAML spellings, with and without the full-match flags, on listings whose repetition count sits on/next to each bound; verdict and every reported span "
        "are compared with the reference matcher, and unrolled / re-spelled rule pairs must return identical all-matches lists (no reference involved).",
        note="Trusted: reference matcher, Hypothesis. min-only/max-only spellings and times on capture definitions are outside the statement and not asserted; "
        "operand-level times is judged by the metamorphic relation only.",
        ref="DESIGN.md 4/C02",
    ),
    "C03": dict(
        cat="exploration",
        technique="property-based testing (Hypothesis): nested $or/$and/$and_any_order rules built from listing windows with decoys, listing mutators, reference matcher oracle",
        text="Nestings of the three operators (instruction level, operand level, $or inside a $deref field, prefix-alternative $or, any-order groups with equal children) "
        "built to match a window of a generated listing, then perturbed by one listing mutator; JASM's verdict (bool and all-matches) and every reported span "
        "are compared with the reference matcher under drawn full-match flags.",
        note="Trusted: reference matcher, operand table, Hypothesis. Depth <= 3 (quick) / 4 (thorough), any-order groups <= 4 children, no times/$not/captures here.",
        ref="DESIGN.md 4/C03",
    ),
    "C04": dict(
        cat="exploration",
        technique="property-based testing (Hypothesis): $not in leading/inner/trailing/repeated/nested/operand position with arguments that match at, after, or not at the site; reference matcher oracle",
        text="Rules with $not in every position the statement lists, whose argument is drawn to fail at the site, match at the site, match one instruction/operand "
        "later only, span several instructions, or match only with its first instruction; listings are then perturbed by one mutator. Verdict (bool, all-matches) and every "
        "reported span are compared with the reference matcher; the evidence counts how many cases' verdict actually depends on the $not node.",
        note="Trusted: reference matcher, Hypothesis. An operand-level $not needs an operand to consume (no match on operand-less instructions).",
        ref="DESIGN.md 4/C04",
    ),
    "C05": dict(
        cat="exploration",
        technique="property-based testing (Hypothesis): spine rules with instruction/operand/register-family captures, listings derived from a drawn binding, defining-site and later-site mutators, reference matcher with environments",
        text="Rules with 1-3 capture names of every kind whose listing is instantiated from a drawn binding and then mutated at a defining or later occurrence "
        "(prefix/extension of the bound text, other family member, wrong width, look-alike non-member, operand-less defining instruction, swapped names); capture-free "
        "$or/$not/times groups are interleaved so that stray capturing parentheses shift the numbering. Verdict and spans are compared with a reference matcher that "
        "threads an environment and uses an explicit architectural register table.",
        note="Trusted: reference matcher incl. the register table, Hypothesis. Deref-field captures are asserted only on operands with exactly the rule's components; .8H exists only for &genreg.",
        ref="DESIGN.md 4/C05",
    ),
    "C07": dict(
        cat="exploration",
        technique="property-based testing (Hypothesis): broadest rule generator incl. shipped @any macros, validity predicate on every reported match (record alignment, address, left-to-right order) plus reference-matcher membership",
        text="Rules using every construct (any operator leading, too many operand names, min:0, captures, $deref, shipped @any/@any_shift/@any_rot) on listings "
        "with optional byte-continuation lines, restarting addresses and an installed-but-transparent address-range observer, in both search modes and both address-only "
        "settings. Every reported text must be the concatenation of whole stream records i..j-1 in scan order, the address-only value must be addr_i, and (outside "
        "@any-in-$deref) the span must be one the reference matcher accepts with @any as a one-field wildcard.",
        note="Trusted: reference matcher, predicted stream (checked against JASM in C08-C10), Hypothesis. Empty matches of nullable rules are not judged here.",
        ref="DESIGN.md 4/C07",
    ),
    "C11": dict(
        cat="exploration",
        technique="property-based testing (Hypothesis): small-alphabet listings with adjacent/overlapping candidates, scan-validity oracle over the reference matcher's span set; long-listing family",
        text="Non-nullable rules over a 2-3 letter alphabet of instructions on random words over the same alphabet, so overlapping and adjacent candidate occurrences are "
        "the norm; the reported list must be increasing, non-overlapping, genuine, start at the leftmost candidate and leave no candidate start in any gap or after "
        "the last match; first-match mode must equal the one-element prefix. A deterministic family of 33k-70k instruction listings with occurrences at and around "
        "multiples of 32768 is added (1 in quick, 3 in thorough).",
        note="Trusted: reference matcher's span set (complete set of ends per start), Hypothesis. Nullable rules are excluded as the statement says.",
        ref="DESIGN.md 4/C11",
    ),
    "C12": dict(
        cat="exploration",
        technique="property-based testing (Hypothesis): metamorphic agreement of the 8 result modes on generated rule/listing pairs (modes enumerated exhaustively per pair)",
        text="Every generated (rule, listing) pair from the broadest generator is run in all 2x2x2 mode combinations; the relations bool == non-empty list, first == prefix "
        "of all, address-only == address prefix of the full text element by element, and mode-independence of the verdict (and of failure) are checked. No reference model is needed.",
        note="Trusted: Hypothesis and the harness's bookkeeping only. Exhaustive over modes, sampled over inputs.",
        ref="DESIGN.md 4/C12",
    ),
    "C08": dict(
        cat="exploration",
        technique="fuzzing through the real disassembler: Hypothesis-drawn code bytes/ELF objects -> objdump -> independent line classifier as differential oracle against the stream and parse_file_lines",
        text="The quantifier is 'everything objdump can print', so the harness asks objdump: generated byte blobs (x86-64, i386, i8086 modes) and generated ELF64/ELF32 "
        "relocatables with several sections and symbols are disassembled, and the sequence of (address, first token) over instruction lines - found by a classifier written "
        "from objdump's line format - must equal the (address, mnemonic) sequence of JASM's stream and of parse_file_lines; any exception is a violation.",
        note="Trusted: objdump 2.40 as input source, the 3-regex line classifier, Hypothesis. 'data16 ' prefix, '(bad)' and branch-hint suffixes are the documented rewrites.",
        ref="DESIGN.md 4/C08",
    ),
    "C09": dict(
        cat="exploration",
        technique="property-based testing (Hypothesis) with a reference operand normaliser: composed synthetic operands, ModRM/SIB-encoded real objdump lines, and arbitrary objdump output",
        text="Operands composed from every form the statement lists (synthetic lines), dense real memory operands obtained by encoding (base,index,scale,disp) and asking "
        "objdump, and arbitrary code bytes; each instruction's stream record and parse_line result are compared operand by operand with a normaliser written from the statement "
        "(depth-0 comma split + rewrite by shape). Forms outside the statement's list only have their count/order checked.",
        note="Trusted: reference normaliser (~60 lines), objdump, the tiny ModRM/SIB encoder only as an input source.",
        ref="DESIGN.md 4/C09",
    ),
    "C10": dict(
        cat="exploration",
        technique="round-trip property (Hypothesis): decode(stream) == parser's instruction list, on objdump output for generated code bytes and on synthetic listings",
        text="The stream is decoded purely by its separators and must reproduce the parser's own (address, mnemonic, operands) list; no field may contain '|', ',' or '::'. "
        "Inputs are the same objdump-produced listings as C08 plus rendered synthetic listings. Injectivity follows from the round trip.",
        note="Trusted: the 15-line decoder, objdump as input source.",
        ref="DESIGN.md 4/C10",
    ),
    "C06": dict(
        cat="exploration",
        technique="property-based testing (Hypothesis): $deref field combinations/spellings vs one-step perturbed candidate operands, rendered and real (ModRM/SIB through objdump); reference normaliser + component-wise oracle",
        text="For drawn reference components and each present/absent field combination and spelling, one all-matches call decides 8-28 candidate instructions that are "
        "one-step perturbations of the reference operand (same, one component changed incl. prefix/extension displacements, added/removed component, swapped, register, immediate, "
        "other operand position), on rendered text and on real objdump output of encoded instructions. Expected matches come from the reference normaliser and component-wise equality.",
        note="Trusted: reference normaliser/matcher, objdump and the encoder as input source. Negative displacement without 0x and segment/* operands are outside the statement.",
        ref="DESIGN.md 4/C06",
    ),
    "C15": dict(
        cat="exploration",
        technique="differential testing on generated ELF objects (Hypothesis): JASM's binary route vs the harness's own `objdump -d -M att [-j ..]` text fed through the assembly route",
        text="Generated ELF64/ELF32 relocatables with several exec/non-exec sections and function/object symbols, crossed with section lists of every kind (absent, one, several, "
        "present+absent mix, only absent, non-exec); the instruction stream and the all-matches lists of three listing-derived rules must be identical between the two routes; "
        "when objdump itself fails for the request JASM may raise or return empty but not match. Cases run back to back in one process, so stale section state is exercised.",
        note="Trusted: objdump 2.40 (both routes use it), the ELF writer as input source.",
        ref="DESIGN.md 4/C15",
    ),
    "C16": dict(
        cat="exploration",
        technique="metamorphic testing (Hypothesis): presentation edits on real and synthetic listings must leave the instruction stream and match lists unchanged",
        text="1-6 edits per case from 24 kinds (labels, <sym+off> annotations, # comments, blank lines, section headers, file-format header, indentation 0-12, byte column content and "
        "length, continuation lines, global strip of blanks/labels/section headers) applied to objdump output of generated objects/blobs and to rendered listings; "
        "all_instructions_string and the all-matches lists of three derived rules are compared before/after.",
        note="Trusted: the edit functions keep instruction text byte-identical (they only touch what the statement lists). CRLF / no-raw-insn are out of scope.",
        ref="DESIGN.md 4/C16",
    ),
    "C18": dict(
        cat="exploration",
        technique="property-based testing (Hypothesis): ranges and branch targets generated on and around both bounds with spelling variants; per-instruction three-valued oracle on the stream and on call:/jmp: [valid_addr] rules",
        text="Ranges of 1-16 hex digits (min=max included, 0x / upper-case / leading-zero spellings) against listings whose direct call/jmp targets sit at min-1, min, max, max+1, "
        "inside, far away and with other digit counts, mixed with indirect branches, conditional jumps and non-branches carrying in-range numbers. Each instruction is MUST-tag, "
        "MUST-NOT or UNSPEC; the tagged stream is compared record by record with the untagged one, and the rule results with the MUST set.",
        note="Trusted: numeric comparison in the harness. Conditional jumps and callq/jmpq are unspecified by the statement and accepted either way.",
        ref="DESIGN.md 4/C18",
    ),
    "C13": dict(
        cat="exploration",
        technique="property-based testing (Hypothesis): a macro-free rule is factored into macros in every supported use form and compiled; round-trip oracle against the manually inlined rule (regex text equality, behavioural comparison on difference)",
        text="Macro-free rules are factored into 1-4 macros (whole item, whole operand/value, name-embedded string macro, times-body string macro, parameterised macro with 1-3 "
        "formals incl. int/0 actuals), nested, used 1-3 times with equal and different actuals, and the definitions split between the rule file and 0-2 extra files; "
        "produce_regex of the factored rule must equal that of the rule inlined by an independent 40-line reference expander (whose inverse relation to the factoring is asserted).",
        note="Trusted: reference expander, Hypothesis. Unsupported use forms (macro as key with operand list, formal in key position, item macro with sibling times) are not generated.",
        ref="DESIGN.md 4/C13",
    ),
    "C19": dict(
        cat="exploration",
        technique="property-based testing (Hypothesis): valid macro rules receive one drawn fault (undefined reference at each position kind, deleted/unpassed definition, name without @); oracle = must raise naming the reference, controls must compile @-free",
        text="Valid macro rules from the C13 generator get exactly one fault from 12 kinds covering every position a reference can occupy (list item, operand, $deref value, key with "
        "times body, key with operand body, under $or/$not, inside a macro body listed first/last), a deleted or not-passed definition, or a definition renamed to lack '@' "
        "(with and without its uses renamed). The faulted rule must fail to compile with an error naming the reference; control rules must compile to an '@'-free regex.",
        note="Trusted: the generator's vocabulary is '@'-free by construction. At least one macro definition is always supplied (the statement's scope).",
        ref="DESIGN.md 4/C19",
    ),
    "C17": dict(
        cat="fault_enumeration",
        technique="fault injection enumerated over a finite fault list x Hypothesis-generated 'found' bases (assembly and binary mode, API and CLI); oracle: outcome must be error or found, never a silent miss",
        text="~60 fault kinds (file faults incl. unreadable files in a capability-less child, absent/failing/killed/half-printing disassembler, broken YAML at a drawn offset, missing and "
        "wrongly typed pattern/config/macros entries, empty groups, $not arity, $deref without main_reg, negative/inverted times in both spellings on items and groups, "
        "undefined macros with no/in-file/extra-file definitions) are each injected alone into generated (rule, input) pairs whose fault-free verdict is confirmed 'found' on "
        "every case; the operation must raise / exit non-zero, or still find; False/[] without error is the violation. One open finding (F10b) is listed in known_findings.json.",
        note="Trusted: the fault injectors; capset/prctl for the unreadable cells (reported as not exercised if refused; a control run in the same child must say 'found'). "
        "Faults JASM accepts while still reporting 'found' are counted as accepted.",
        ref="DESIGN.md 4/C17",
    ),
    "C14": dict(
        cat="exploration",
        technique="stateful property-based testing (Hypothesis-generated operation histories, shrunk as one value) against fresh-interpreter baselines, plus exhaustive enumeration of all ordered pairs of the operation pool",
        text="Histories of 2-40 (thorough: 120) complete compile-and-match operations drawn from a ~100-operation pool that covers flags, ranges, sections, style, captures, "
        "inline/extra-file macros, inputs, result modes and failing operations are run in one process (forked from a parent that never ran JASM); every step's outcome must equal "
        "that operation's outcome when performed first in a fresh interpreter. All ordered pairs of the pool are checked exhaustively as well.",
        note="Trusted: baselines from real fresh interpreters (one subprocess per operation); exception outcomes compared by type. The state is synchronous process-global "
        "state, so owning the sequence is enough (no timing involved).",
        ref="DESIGN.md 4/C14",
    ),
    "C20": dict(
        cat="exploration",
        technique="differential testing CLI vs library API (Hypothesis-generated invocations with shuffled options, macro files, binaries, usage errors and failing operations)",
        text="Each generated invocation of `python -m jasm.main` (scratch cwd; -s/-b, --all-matches, --return_only_address, --macros with 1-2 files incl. files that depend on "
        "each other and whose names sort differently from the given order) is compared with the API called with the equivalent MatchConfig: verdict line, the sequence of "
        "'Matched address' payloads, and exit status (0 iff the API did not raise; 2 for usage errors; nothing reported after an error).",
        note="Trusted: parsing of the CLI's stderr log lines. ~0.15 s per invocation bounds the case count (480 quick, 8000 thorough).",
        ref="DESIGN.md 4/C20",
    ),
}

NOT_APPLICABLE = []

ALL = [f"C{n:02d}" for n in range(1, 21)]


CGF = ["C01", "C02", "C03", "C04", "C05", "C06", "C07", "C09", "C11", "C12", "C13", "C16", "C18", "C19"]
COMMON_TECH = ("; every campaign shard is a fresh process whose first JASM operation is an unusual 'prelude' (style intel/att, address range, full-match flags, sections, "
               "captures+macros, failing operations, instance reuse), one API call in four is repeated on the same MasterOfPuppets and must give the same answer, and the saved "
               "failing inputs of confirmed seeded changes (corpus/) are replayed first")
CGF_TECH = "; the thorough tier adds a coverage-guided stage (atheris/libFuzzer driving the same Hypothesis strategy through fuzz_one_input with JASM's own Python code instrumented, same oracle inside the target)"
ADD_TEXT = {
    "C07": " Listings may consist of several section blocks while the rule carries a sections list (which concerns binaries only).",
    "C20": " Paths may be relative to the working directory with the pattern in a sub-directory and a same-named decoy macro file next to it (the API is called under the same cwd with the same strings); listings may carry two title lines (doubled text, archives, COFF); Matched-address lines are counted whatever logger format prints them. Broad cases may come in several section blocks with a sections list in the rule.",
    "C18": " Ranges may start at address 0 and targets may be 0; callq/jmpq are judged as the direct call/jmp they are. The w spellings callw/jmpw that objdump prints for 66 e8 / 66 e9 are generated too; bounds may carry a 0X prefix; the rule may carry style intel/att; short addresses are as frequent as long ones.",
    "C02": " Spellings include the sibling key written before the item key; kinds include a repeated single-child group whose child is itself repeated (bodies one instruction short / long) and a ranged run followed by an instruction the run's own name fits. A metamorphic class checks that a plain use of a macro stays (1,1) when another use of the same macro carries times. Further kinds: both levels of a nested repetition ranged with the run length in a gap of the reachable totals; the repeated item is a later occurrence of an instruction capture defined just before it (and, at operand level, of an operand capture).",
    "C06": " Negative displacements are also spelled without 0x; candidates include the rule's operand printed with the pseudo index register %riz / %eiz. A third of the cases whose only described operand is the $deref run under operands-full-match, another third under both full-match flags.",
    "C09": " Instructions printed with prefix words are judged by the operands after their real mnemonic (open known finding F15: they are dropped); with a valid_addr_range containing every address only branches may differ from the plain stream. Real objdump lines are taken in every layout objdump offers (wide, --insn-width, --no-show-raw-insn).",
    "C15": " Objects may carry a malformed .note.gnu.property that makes objdump warn on stderr while exiting 0. The object is also given as COFF (pe-x86-64, pe-i386, pe-bigobj), as a regular, two-member or thin ar archive.",
    "C01": " Exhaustive sub-parts: a small-scope grid (names over {a,ab,b}, operands over {x,xy,y}) and a 64-item literal rule whose only occurrence straddles each of 17 plausible chunk sizes (2^8..2^17, round decimals) of a long listing, intact and with one instruction replaced. Every case is also asked in address-only presentation (incl. listings starting at address 0) and compared with the reference scan; a class describes immediates in the <hex>h spelling. A mutator describes an operand by an integer-typed name (unquoted 16, 255, -8) against operands that show the hexadecimal rendering of that value.",
    "C03": " Further levels: an operator nested directly in the same operator with the window permuted (an outer sibling between the inner group's instructions), and a $deref as child of an operand-level $and/$and_any_order followed by a nested operator. The inner group may also be an explicit $and inside $and_any_order. Operand-level $or with alternatives in the <hex>h spelling next to plain ones; six fixed 7-child $and_any_order rules (5040 orderings) with substring-related names, a missing and a doubled child.",
    "C04": " A double negation $not[$not[X]] (which still consumes exactly one instruction) is one of the positions. One position has the $not's argument define a capture while the next item defines and reuses another one.",
    "C05": " Captures in $deref fields (fields written in a drawn key order, names reused in fields of the same kind) are judged by a component-wise oracle on operands that have exactly the rule's components. Capture-free uses of the shipped macro library precede capture sites; a later occurrence may differ in letter case only. Further forms: a later occurrence of a plain capture inside a logical operator inside a $deref field; 9-130 capture names on the spine with a later occurrence of one of them (verdict known by construction). Two or three names may differ only in letter case.",
    "C08": " Sub-part: synthetic listings of every length c-1, c, c+1 around 17 plausible chunk sizes (up to 131 073 instructions) must give exactly the prescribed stream. Listings are taken in every layout objdump offers (-w, --insn-width=8/11/15, --no-show-raw-insn); {vex} pseudo prefixes; one symbol name per third object listing is replaced by bytes that are not valid UTF-8, where the stream must not change (open known finding F24: UnicodeDecodeError).",
    "C10": " Sub-part: synthetic listings of every length c-1, c, c+1 around 17 plausible chunk sizes (up to 131 073 instructions) must give exactly the prescribed stream. Real objdump output is taken in every layout objdump offers (wide, --insn-width, --no-show-raw-insn).",
    "C11": " Sub-parts: a 33 000-instruction listing with occurrences around multiples of 32 768, and for each of 17 plausible chunk sizes a long listing whose occurrences straddle that index, matched by four rules (pair, ordered alternatives whose leftmost match needs the instruction past the cut, a greedy variable-length run, a 64-item rule). Injected regex time-outs (harness side) must surface as errors, never as a shorter list; template with a ranged run followed by an item the run's name also fits.",
    "C12": " The same laws are checked on long (> 64 KiB) listings whose occurrence straddles a plausible chunk size, in all 8 modes. Listings may consist of several section blocks while the rule carries a sections list.",
    "C13": " Base rules contain $deref items, so formals also stand for values of a mapping directly under a key. Actuals may be spelled like another formal, formals are short enough to occur inside body literals, string macros may have a top-level alternation; differing regex texts are additionally judged on witness listings synthesised from the inlined rule. Hand-inlined parameterised cases: a formal handed on to a second macro under the same name, an inner call with a fixed argument labelled like the outer formal, a formal named like a key inside another argument; a compositionality relation ([X, @m] compiles to [X] followed by [@m]) needs no reference; the same string macro twice in one name. Further hand-inlined variants: the nested call spelling (labels under the macro name) and a formal parameter standing for the value of times.",
    "C14": " A second family of generated histories rewrites the rule, listing, binary and macro-library files themselves in place (same path, same byte length, same second) between operations; every match step is compared with the same operation on a private copy of the files as they are at that step, run in a separately forked process. Pool and templates include inverted ranges, style x sections on binaries, and hand-written rule text with unquoted hexadecimal scalars. The rewrite histories are also driven by a hypothesis.stateful RuleBasedStateMachine (model: variant per slot + set of slots already read; preconditions steer towards rewriting a file that was read and asking again; one worker process per example). Rules with an empty config section (YAML null) are in the pool and in the step templates.",
    "C16": " Edits include byte columns wider than 7 bytes (objdump --insn-width), comments that end in a colon or look like a section header, and every stream comparison is repeated with valid_addr_range and a sections list configured. The raw-byte column may be removed altogether (objdump --no-show-raw-insn). The config variant also carries style intel/att; a quarter of the cases force an annotation renamed to a C++ symbol containing <, > and blanks.",
    "C17": " In addition to the random campaign every (input mode, fault) cell is evaluated on every run (deterministic grid; thorough: three bases, API and CLI). Further fault kinds: listing saved as UTF-16, undefined macro introduced by another macro's expansion. Fault kinds include valid_addr_range bounds written as unquoted (integer) hex scalars with a base rule that needs the range. Further faults: a falsy wrongly typed valid_addr_range ([], 0, false, '') with a range-dependent base rule; an ar archive whose second member objdump cannot read (partial listing, exit 1).",
    "C19": " Reference names include non-identifiers (@64bit_, @8_), references spliced into longer mnemonic/operand names, and a reference to a macro that is defined but applied before its user (must be reported or expanded, never kept). Cyclic macro definitions are a fault kind. A fault places the undefined reference in the same name as a defined string macro.",
}


ADD_TEXT_R7 = {
    "C01": " One case in eight takes its listing from real objdump output of generated code bytes (blobs in three modes, ELF objects incl. linked ones with load addresses): the rule describes a window of the decoded stream, windows are steered to fields the synthetic vocabulary lacks ({%k1}{z}, *%rax, %fs:0x28, rex.W, .byte), one line-level mutation follows, and the fields of every record are counted against the operands of the objdump line (commas outside parentheses).",
    "C02": " Bounds also have two and three digits (7..101, ranges up to 90 wide) and lie around 1000 (999..1002 with runs of hi-1 / hi / hi+1; whole names, no alternation in the repeated node); kinds include an $or with a $not alternative whose argument spans several instructions; relations include times on the invocation of a list-bodied macro vs the body written out with that times (F32) and a later register-family occurrence with times (F31); the sibling spelling is also written with an empty item value (F35).",
    "C03": " Levels leading-optionals (alternatives / groups that begin with children that may match nothing) and mapping-form (the children of a group, of a nested group or of the whole pattern written as a YAML mapping); $deref-field operators are also written as the mapping itself (F36).",
    "C04": " Repeated $not also with wide windows (max 31..1000 over a short run); position adjacent-nots (two guards whose arguments are alike up to a point: no operands / one operand, one / two operands, two / three alternatives).",
    "C05": " The later occurrence inside an operator inside a $deref field may be a register-family capture; one rule in four is compiled twice on the same Yaml2Regex object and must give the same regex.",
    "C06": " The instruction around the $deref varies (mov, lea, add, cmp, scalar SSE mnemonics ending in ss with xmm registers).",
    "C07": " Sub-part: for each of 17 plausible chunk sizes a long listing whose record before the cut ends in hex digits; matches at the cut must be aligned and report their own address.",
    "C08": " Objects may be linked files (ET_EXEC / ET_DYN, sections at load addresses, 8- and 16-digit address columns) or carry relocations, shown with objdump -r and -w -r (records on their own lines / appended to instruction lines); the byte table has *ss mnemonics with memory operands and MPX (bad) forms.",
    "C10": " The number of operand fields of a record must equal the number of operands on the line as objdump printed it (operand text split at commas outside parentheses; lines that start with a prefix word are left to F15). Objects as in C08 (linked, relocations, -r / -w -r layouts).",
    "C11": " Fixed families: a 7-child $and_any_order with a doubled / more specific child on windows that fit child by child but not one-to-one; runs of 1000-1003 instructions against bounds of 999 / 1000 followed by more pattern.",
    "C12": " The greedy-run zone rule runs at all 17 chunk-size candidates in the quick tier.",
    "C13": " Kinds key-substring / key-whole (a string macro inside / as the name of an item that has a body, i.e. in a mapping key) and chain (a string macro whose body refers to a later one, F38); extra macro files are named so that the given order is not the alphabetical one in half of the cases.",
    "C14": " The pool has operations that load a config without completing a match (compile-only through Yaml2Regex, failures after the config was read) and rules whose sections are all absent; histories ask earlier questions again and bracket such a disturber with the same operation.",
    "C15": " Section names may contain upper-case letters; objects may be linked files or carry relocations.",
    "C16": " File names made of hex digits only in the title line; indentation of 16-56 blanks.",
    "C17": " 28 further fault kinds on base rules whose verdict depends on the faulted entry: wrongly typed times in three spellings (F34), bad times on a macro use (F32), $deref fields without a value (F33), empty groups and multi-argument $not in operand lists and $deref fields.",
    "C18": " The l spellings calll / jmpl that objdump prints in 16-bit code are generated (F37).",
    "C19": " Sub-check: the macro library rewritten between two compilations of the same rule text under the same path - the second compilation must report the lost definition (MasterOfPuppets and Yaml2Regex).",
    "C20": " Every option is written short / long / long with '=' / as an unambiguous abbreviation, 0-2 of the remaining options (--debug, --info, logging switches, --dissasemble-program=objdump) are added as extras that must not change what is reported, the entry point is python -m jasm.main or the installed console script; the listing or the rule may be fed through /dev/stdin; paths may run through a symlinked directory followed by '..' with decoys at the lexically collapsed location.",
}
for _k, _v in ADD_TEXT_R7.items():
    ADD_TEXT[_k] = ADD_TEXT.get(_k, "") + _v


ADD_TEXT_R8 = {
    "C01": " After the first answer the listing is replaced in place by one of the same size with the old timestamps put back and matched again (a cache keyed by path, size and mtime shows).",
    "C02": " The same list-macro invocation with times may occur twice in one rule; times may be written inside a mapping-form group (F40); generic to all rule checks: repeated items are written once with a YAML anchor and again through an alias, one rule document in four in another YAML spelling.",
    "C03": " Level repeated-group: a ranged group whose only child has an exact count (run lengths with gaps), an operator macro used twice with one use repeated.",
    "C04": " Argument kinds macro-times and repeated-group-ranged-tail; long listings with a multi-instruction $not argument astride each of 17 chunk-size candidates.",
    "C05": " Mutators inst-extra-operand / inst-operand-removed for later instruction-level occurrences; form ranged-occurrence-before-definition: a ranged (min 0) later occurrence judged against the written-out rules with optional items around the definition (F44).",
    "C06": " Candidate kind segment-prefixed: the rule's own operand behind %fs: / %gs: (rendered and real-objdump routes).",
    "C07": " An empty match is never an occurrence: any reported match that covers no instruction is a deviation (F42).",
    "C09": " Instruction text is read up to a TAB (relocation records appended by objdump -w -r are not operand text, F39).",
    "C10": " The stream is also read while the rule's config carries a style entry.",
    "C11": " Families binary-sections (binary input, the sections list in and out of file order) and archive-listing (a static library as text and as binary: the scan laws across member boundaries).",
    "C13": " The character after a key reference is drawn from the full name alphabet (F38b); macro file names flipped against alphabetical order.",
    "C14": " Pool operations over a listing of more than a megabyte (a range rule that tags one of its calls, then a plain rule naming the target) and over a listing that arrives through a named pipe (content, nothing, other content under one path); rewrites may put the old timestamps back.",
    "C15": " A valid_addr_range may be part of the rule's config on both routes.",
    "C16": " -F style labels, target-like and hex title names, long (over 1000 characters) and header-like symbol names.",
    "C17": " Macro-file faults (missing, a directory, dangling link, unreadable, one of two), objdump absent while an llvm-objdump is on PATH, float / string bounds (F41), bad times inside mapping-form groups (F40); a listed fault that is accepted with the intact pair's verdict and no error is a deviation as well (unknown style excepted, as stated).",
    "C18": " Binary route against the text route on linked ELF files with ranges narrower than the code.",
    "C19": " References written under or beside the key of a list-macro invocation (F43); a supplied macro file that cannot be read must be reported.",
    "C20": " Odd input file names (blanks, %, braces, #, non-ASCII, shell metacharacters).",
}
for _k, _v in ADD_TEXT_R8.items():
    ADD_TEXT[_k] = ADD_TEXT.get(_k, "") + _v


ADD_TEXT_R9 = {
    "C01": " Generic to all checks that write rule documents (DESIGN 2.4): for one call in eight a twin matcher with both full-match flags flipped is constructed between constructing the matcher and asking it; one rule document in three has its hexadecimal strings unquoted (F52).",
    "C02": " Class capture-user-range: ranged items / groups / register-family occurrences that use a capture, ranges of width 1-3 and 63-90, runs at min-1 .. max+1 and max+min (F47); relation operand-plain: times beside a plain operand (F48).",
    "C04": " The operand-level $not also as a child of operand-level $and / $or / $and_any_order.",
    "C05": " Form ranged-user-after-rebinding (item, $and / $or group, $not, $not around a ranged group - all using a capture whose definition sits between optional items, F47); capture names that look like a family (&framereg-old.64 / .32); capture names spelled through a string macro.",
    "C06": " One rip-relative rule in three names the base alone; one rule in four is delivered through a one-argument macro whose formal is a short name contained in the literal fields.",
    "C07": " Fixed family deref-as-item ($deref where an instruction is expected: rejected, or aligned matches, F51); a one-address range that tags a call / jmp target of the listing, the model tagged accordingly; fixed family evex: six real AVX-512 lines with an indexed, decorated memory operand - one wildcard item per operand finds them, one more finds nothing.",
    "C08": " Symbol names as objdump -C prints them (templates with '> ', commas, parentheses); one objdump call in five runs on a hard link with a bare hexadecimal name.",
    "C09": " Exact-length long listings around 4096 .. 131072 instructions.",
    "C10": " Family sectioned: long listings of several sections, the stream asked for with rules that occur early / late / never, first-match and all-matches.",
    "C11": " Fixed family macro-twice: one list macro invoked twice with different times, the scan judged against the reference over the inlined rule.",
    "C12": " Families binary-sections (binary input, sections in / out of file order, a rule straddling the section boundary) and many-hits (70 000 hits, 4.3 MB of matched text).",
    "C13": " Kinds second-in-name and chain-of-three, macro names containing '-' and '.'.",
    "C14": " Pool operations that register captures and then fail to compile; NNh literals under both operands-full-match settings.",
    "C15": " Object files under names with blanks, quotes, backslashes; section names with a blank / quote.",
    "C16": " PLT stub names (<puts@plt>) in annotations under the range rule.",
    "C17": " Faults yaml-second-document, times-bool-* / times-boolbounds-* (F50), macro-use-label-misspelt / -argument-missing / -operand-list-under-list-macro (F49); path faults also after a successful load of the same path in the same process; unquoted 0x bounds of a range may be read as written (F52).",
    "C19": " Lost-reference family: seven shapes (operand list under a list macro, sibling key, inner key, beside another invocation, unused formal, beside a string macro with times, surplus list elements) x undefined / begins-like-defined / defined x four definition orders (F45, F46); an ill-named twin of a well-named definition.",
    "C20": " The binary under the bare name of a program on PATH; the INFO log file that cannot be opened (the command fails or reports once).",
}
for _k, _v in ADD_TEXT_R9.items():
    ADD_TEXT[_k] = ADD_TEXT.get(_k, "") + _v


def main():
    checks = []
    for pid in ALL:
        if pid not in CHECKS:
            continue
        c = CHECKS[pid]
        checks.append(
            {
                "property_id": pid,
                "quick_cmd": f"./check {pid} quick",
                "thorough_cmd": f"./check {pid} thorough",
                "evidence_file": f"evidence/{pid}.json",
                "replay_cmd_template": f"./check {pid} --replay {{path}}",
                "engine": "hypothesis-pbt",
                "level_claimed": {"category": c["cat"], "text": c["text"] + ADD_TEXT.get(pid, ""), "design_ref": c["ref"]},
                "level_note": c["note"],
                "technique": c["technique"] + COMMON_TECH + (CGF_TECH if pid in CGF else ""),
            }
        )
    na = list(NOT_APPLICABLE)
    claimed = {c["property_id"] for c in checks}
    listed = {n["property_id"] for n in na}
    for pid in ALL:
        if pid not in claimed and pid not in listed:
            na.append({"property_id": pid, "reason": "check not built yet in this round (planned, see DESIGN.md section 4); not claimed until its check exists and is quiet on the unchanged tree"})
    manifest = {
        "version": 1,
        "setup_cmd": "./setup.sh",
        "hooks": {
            "guard": "JASM_VERIF",
            "enable": "no hooks are needed: every observation point is public API / CLI output; checks import /repo/src directly (editable install) so they always run the current working tree",
            "baseline_off_cmd": "cd /repo && /venv/bin/python -m pytest -ra -q -p no:cacheprovider --timeout=900 --continue-on-collection-errors",
            "source_commits": [],
            "add_only": True,
        },
        "engines": [
            {
                "name": "hypothesis-pbt",
                "path": "vlib/runner.py",
                "serves_properties": sorted(claimed),
                "kind_free_text": "Hypothesis 6.168 property-based testing: sharded seeded campaigns (16 processes), explicit oracles (reference matcher, reference normaliser, round trips, metamorphic and differential relations), shrinking to replay files, known-findings signatures",
            },
            {
                "name": "atheris-coverage-guided",
                "path": "vlib/cgf.py",
                "serves_properties": CGF,
                "kind_free_text": "atheris 3.1 (libFuzzer) as a stage of the thorough tier: 16 workers, the fuzz target is hypothesis' fuzz_one_input of the property's own strategy (inputs stay inside the property's domain), JASM's Python modules are instrumented for edge coverage, the property's oracle runs inside the target; a failing case is written as the same replay file as everywhere else",
            },
        ],
        "checks": checks,
        "not_applicable": na,
        "notes": "All checks: ./check <ID> quick|thorough, replay with ./check <ID> --replay <file>. Exit 0 held / 1 VIOLATION / 2 harness error. VERIF_SEED selects the campaign.",
    }
    with open(os.path.join(VERIF, "MANIFEST.json"), "w") as f:
        json.dump(manifest, f, indent=1)
        f.write("\n")
    try:
        import jsonschema

        schema = json.load(open("/root/.vp/MANIFEST.schema.json"))
        jsonschema.validate(manifest, schema)
        print("MANIFEST.json valid;", len(checks), "checks,", len(na), "not_applicable")
    except ImportError:
        print("MANIFEST.json written (jsonschema not available here)")


if __name__ == "__main__":
    sys.exit(main())
