#!/usr/bin/env python3
"""Mutation sensitivity: systematic small edits of the anchored JASM files, independent of hand- or agent-written seeds.

  tools/mutate.py gen                         -> mutation/mutants.json  (all candidate mutants of the anchored files)
  tools/mutate.py filter [--sample N] [--seed S]   keep mutants that still import and pass the 129 stable tests -> survivors.json
  tools/mutate.py kill [--limit N]            run the quick checks of the properties anchored in the mutated file (+ C07, C12)
                                              against each survivor; -> results.json, table on stdout
  tools/mutate.py second C20,C14              run further checks on first-pass survivors (a mutant of consumer.py may only show in the CLI)
  tools/mutate.py report                      summary of results.json

Mutation operators (located with `ast`, applied as text edits so that everything else stays byte-identical):
  cmp      == <-> !=, < <-> <=, > <-> >=, in <-> not in, is <-> is not
  bool     and <-> or;  `not x` -> `x`
  const    True <-> False; int n -> n+1 (and n-1 for n > 1)
  cond     `if c:` -> `if not (c):`  (also while / ternary tests)
  raise    `raise ...` -> `pass`
  ret      `return x` -> `return None`
  str      regex-ish string fragments (plain, r"", f"" parts): drop one occurrence of a metacharacter (, | ^ ? + * : \\ [ ] ( )),
           `{0,` -> `{1,`, `+` <-> `*`, drop one alternative character of a bracket class
  del      drop one expression/assignment statement (replaced by `pass`)

Everything runs on scratch copies outside /repo and /verif; /repo is never touched.
"""
import ast
import hashlib
import json
import os
import shutil
import subprocess
import sys
import tempfile
import xml.etree.ElementTree as ET
from concurrent.futures import ThreadPoolExecutor

VERIF = os.path.dirname(os.path.dirname(os.path.abspath(__file__)))
OUT = os.path.join(VERIF, "mutation")  # committed: mutants.json, suite.json, survivors.json, results.json
BASE = json.load(open("/root/.vp/BASELINE.json"))
SKIP_FILES = ("logging_config.py", "parse_arguments.py", "__init__.py")


def anchors():
    """file -> property ids anchored in it"""
    m = {}
    for line in open(os.path.join(VERIF, "properties.jsonl")):
        p = json.loads(line)
        for f in p["anchors"]["files"]:
            m.setdefault(f, []).append(p["id"])
    return m


# ---------------------------------------------------------------------------------- generation
CMP = {ast.Eq: "!=", ast.NotEq: "==", ast.Lt: "<=", ast.LtE: "<", ast.Gt: ">=", ast.GtE: ">", ast.In: "not in", ast.NotIn: "in", ast.Is: "is not", ast.IsNot: "is"}
META = ",|^?+*:\\[]()"


def line_offsets(src):
    offs = [0]
    for ln in src.splitlines(keepends=True):
        offs.append(offs[-1] + len(ln))
    return offs


class Gen(ast.NodeVisitor):
    def __init__(self, src, path):
        self.src, self.path = src, path
        self.offs = line_offsets(src)
        self.out = []
        self.lines = src.splitlines(keepends=True)

    def pos(self, lineno, col):
        # ast columns are utf-8 byte offsets; the sources are ASCII apart from comments, good enough
        return self.offs[lineno - 1] + len(self.lines[lineno - 1].encode()[:col].decode(errors="ignore"))

    def span(self, node):
        return self.pos(node.lineno, node.col_offset), self.pos(node.end_lineno, node.end_col_offset)

    def add(self, a, b, repl, op, what):
        if self.src[a:b] != repl:
            self.out.append({"file": self.path, "start": a, "end": b, "old": self.src[a:b], "new": repl, "op": op, "what": what, "line": self.src.count("\n", 0, a) + 1})

    def visit_Compare(self, node):
        left = node.left
        for op, right in zip(node.ops, node.comparators):
            a = self.span(left)[1]
            b = self.span(right)[0]
            if type(op) in CMP:
                seg = self.src[a:b]
                self.add(a, b, " " + CMP[type(op)] + " ", "cmp", seg.strip() + " -> " + CMP[type(op)])
            left = right
        self.generic_visit(node)

    def visit_BoolOp(self, node):
        for x, y in zip(node.values, node.values[1:]):
            a, b = self.span(x)[1], self.span(y)[0]
            seg = self.src[a:b]
            word = "and" if isinstance(node.op, ast.And) else "or"
            if word in seg:
                self.add(a, b, seg.replace(word, "or" if word == "and" else "and", 1), "bool", word + " flipped")
        self.generic_visit(node)

    def visit_UnaryOp(self, node):
        if isinstance(node.op, ast.Not):
            a, b = self.span(node)
            oa, ob = self.span(node.operand)
            self.add(a, b, self.src[oa:ob], "bool", "not removed")
        self.generic_visit(node)

    def visit_Constant(self, node):
        a, b = self.span(node)
        v = node.value
        if v is True or v is False:
            self.add(a, b, str(not v), "const", f"{v} -> {not v}")
        elif isinstance(v, int) and not isinstance(v, bool):
            self.add(a, b, str(v + 1), "const", f"{v} -> {v + 1}")
            if v > 1:
                self.add(a, b, str(v - 1), "const", f"{v} -> {v - 1}")
        elif isinstance(v, str):
            self.string_fragment(a, b)

    def string_fragment(self, a, b):
        """Edits inside the source text of a string literal (or of a literal part of an f-string)."""
        seg = self.src[a:b]
        if seg.lstrip("rbfRBF")[:3] in ('"""', "'''"):
            return  # docstrings
        if not any(c in seg for c in "[]{}|\\^+*?,:"):
            return
        body_start = a + len(seg) - len(seg.lstrip("rbfRBF")) + 1
        body_end = b - 1
        seen = set()
        for i in range(body_start, body_end):
            c = self.src[i]
            if c in META:
                key = (c, self.src[max(body_start, i - 2): i + 3])
                if key in seen:
                    continue
                seen.add(key)
                if c == "\\" and i + 1 < body_end:
                    continue
                self.add(i, i + 1, "", "str", f"dropped {c!r} at col {i - a} of {seg[:40]}")
            if c == "+":
                self.add(i, i + 1, "*", "str", f"+ -> * in {seg[:40]}")
            elif c == "*":
                self.add(i, i + 1, "+", "str", f"* -> + in {seg[:40]}")
            if self.src[i:i + 3] == "{0,":
                self.add(i, i + 3, "{1,", "str", f"{{0, -> {{1, in {seg[:40]}")
            if self.src[i:i + 3] == "{1,":
                self.add(i, i + 3, "{0,", "str", f"{{1, -> {{0, in {seg[:40]}")

    def visit_JoinedStr(self, node):
        # literal parts of an f-string: their text lies between the formatted values
        a, b = self.span(node)
        cur = a
        holes = []
        for v in node.values:
            if isinstance(v, ast.FormattedValue):
                # the braces surround the expression
                ea, eb = self.span(v.value)
                holes.append((self.src.rfind("{", a, ea), self.src.find("}", eb, b) + 1))
        seen = set()
        pieces = []
        for ha, hb in holes + [(b, b)]:
            pieces.append((cur, ha))
            cur = hb
        first = True
        for pa, pb in pieces:
            if pb - pa <= 0:
                continue
            start = pa
            if first:
                seg = self.src[pa:pb]
                start = pa + len(seg) - len(seg.lstrip("rbfRBF")) + 1
                first = False
            end = pb if pb != b else b - 1
            for i in range(start, end):
                c = self.src[i]
                if c in META and not (c == "\\"):
                    key = (c, self.src[max(start, i - 2): i + 3])
                    if key in seen:
                        continue
                    seen.add(key)
                    self.add(i, i + 1, "", "str", f"dropped {c!r} in f-string {self.src[a:a + 40]}")
                if c == "+":
                    self.add(i, i + 1, "*", "str", f"+ -> * in f-string {self.src[a:a + 40]}")
        for v in node.values:
            if isinstance(v, ast.FormattedValue):
                self.visit(v.value)

    def visit_If(self, node):
        a, b = self.span(node.test)
        self.add(a, b, "not (" + self.src[a:b] + ")", "cond", "if negated")
        self.generic_visit(node)

    visit_While = visit_If

    def visit_IfExp(self, node):
        a, b = self.span(node.test)
        self.add(a, b, "not (" + self.src[a:b] + ")", "cond", "ternary negated")
        self.generic_visit(node)

    def visit_Raise(self, node):
        a, b = self.span(node)
        self.add(a, b, "pass", "raise", "raise removed: " + self.src[a:b][:60])
        self.generic_visit(node)

    def visit_Return(self, node):
        if node.value is not None and not (isinstance(node.value, ast.Constant) and node.value.value is None):
            a, b = self.span(node)
            self.add(a, b, "return None", "ret", "return None instead of " + self.src[a:b][:50])
        self.generic_visit(node)

    def visit_Expr(self, node):
        if isinstance(node.value, ast.Call):
            a, b = self.span(node)
            txt = self.src[a:b]
            if not txt.startswith(("logger.", "logging.", "print(", "super(")):
                self.add(a, b, "pass", "del", "statement removed: " + txt[:60])
        elif isinstance(node.value, ast.Constant) and isinstance(node.value.value, str):
            return  # docstring
        self.generic_visit(node)

    def visit_AugAssign(self, node):
        a, b = self.span(node)
        self.add(a, b, "pass", "del", "statement removed: " + self.src[a:b][:60])
        self.generic_visit(node)


def cmd_gen(argv):
    os.makedirs(OUT, exist_ok=True)
    muts = []
    for f in sorted(anchors()):
        if not f.endswith(".py") or f.endswith(SKIP_FILES):
            continue
        path = os.path.join("/repo", f)
        if not os.path.exists(path):
            continue
        src = open(path).read()
        g = Gen(src, f)
        g.visit(ast.parse(src))
        muts += g.out
    # the shipped macro library is an anchor of C07: character-level edits of its regex patterns
    mf = "tests/macros/jasm_macros.yaml"
    src = open(os.path.join("/repo", mf)).read()
    for i, c in enumerate(src):
        if c in ",|^{}" and "pattern" in src[src.rfind("\n", 0, i): i]:
            muts.append({"file": mf, "start": i, "end": i + 1, "old": c, "new": "", "op": "str", "what": f"dropped {c!r} in macro library", "line": src.count("\n", 0, i) + 1})
    for k, m in enumerate(muts):
        m["id"] = hashlib.sha1(f"{m['file']}:{m['start']}:{m['end']}:{m['new']}".encode()).hexdigest()[:10]
    seen = set()
    uniq = [m for m in muts if not (m["id"] in seen or seen.add(m["id"]))]
    json.dump(uniq, open(os.path.join(OUT, "mutants.json"), "w"), indent=0)
    by = {}
    for m in uniq:
        by[m["op"]] = by.get(m["op"], 0) + 1
    print(len(uniq), "mutants", by)


# ---------------------------------------------------------------------------------- filter by the test suite
def make_copy(m):
    base = tempfile.mkdtemp(prefix="jasm_mut_", dir="/tmp")
    copy = os.path.join(base, "repo")
    os.makedirs(copy)
    subprocess.run(f"git -C /repo ls-files -z src tests pyproject.toml setup.py setup.cfg 2>/dev/null | (cd /repo && xargs -0 cp --parents -t {copy})", shell=True, check=True)
    p = os.path.join(copy, m["file"])
    src = open(p).read()
    assert src[m["start"]:m["end"]] == m["old"], "repository changed since `gen`"
    open(p, "w").write(src[:m["start"]] + m["new"] + src[m["end"]:])
    return base, copy


def survives_suite(m):
    base, copy = make_copy(m)
    try:
        env = dict(os.environ, PYTHONPATH=os.path.join(copy, "src"), PYTHONHASHSEED="0")
        r = subprocess.run(["/venv/bin/python", "-c", "import ast,sys; ast.parse(open(sys.argv[1]).read())", os.path.join(copy, m["file"])], capture_output=True, env=env) if m["file"].endswith(".py") else None
        if r is not None and r.returncode != 0:
            return "syntax"
        xml = os.path.join(base, "junit.xml")
        try:
            subprocess.run(["/venv/bin/python", "-m", "pytest", "-q", "-x", "-p", "no:cacheprovider", "--timeout=120", "--deselect", "tests/test_matching.py::test_all_patterns[moonbounce_malware_full_111826_lines_binarly.s]",
                            "--deselect", "tests/test_parsing.py::test_correct_number_of_lines_with_regex[moonbounce_malware_full_111826_lines.s]",
                            "--deselect", "tests/test_parsing.py::test_parsing_number_of_lines[moonbounce_malware_full_111826_lines.s]",
                            f"--junitxml={xml}"], cwd=copy, env=env, capture_output=True, timeout=900)
        except subprocess.TimeoutExpired:
            return "timeout"
        if not os.path.exists(xml):
            return "no-result"
        passed = set()
        for tc in ET.parse(xml).getroot().iter("testcase"):
            if not any(ch.tag in ("failure", "error", "skipped") for ch in tc):
                passed.add(f"{tc.get('classname')}::{tc.get('name')}")
        return "survives" if not (set(BASE["stable_pass"]) - passed) else "killed-by-suite"
    finally:
        shutil.rmtree(base, ignore_errors=True)


def cmd_filter(argv):
    muts = json.load(open(os.path.join(OUT, "mutants.json")))
    n = None
    seed = 1
    if "--sample" in argv:
        n = int(argv[argv.index("--sample") + 1])
    if "--seed" in argv:
        seed = int(argv[argv.index("--seed") + 1])
    if n:
        # deterministic sample: order by a hash of (seed, id)
        muts = sorted(muts, key=lambda m: hashlib.sha1(f"{seed}/{m['id']}".encode()).hexdigest())[:n]
    done = {}
    sp = os.path.join(OUT, "suite.json")
    if os.path.exists(sp):
        done = json.load(open(sp))
    todo = [m for m in muts if m["id"] not in done]
    with ThreadPoolExecutor(12) as ex:
        for k, (m, res) in enumerate(zip(todo, ex.map(survives_suite, todo))):
            done[m["id"]] = res
            if k % 25 == 0:
                json.dump(done, open(sp, "w"))
                print(k, "/", len(todo), flush=True)
    json.dump(done, open(sp, "w"))
    surv = [m for m in muts if done.get(m["id"]) == "survives"]
    json.dump(surv, open(os.path.join(OUT, "survivors.json"), "w"), indent=0)
    cnt = {}
    for m in muts:
        cnt[done.get(m["id"])] = cnt.get(done.get(m["id"]), 0) + 1
    print(cnt, "->", len(surv), "survivors")


# ---------------------------------------------------------------------------------- kill with the checks
def cmd_kill(argv):
    surv = json.load(open(os.path.join(OUT, "survivors.json")))
    # a deterministic shuffle, so that a run that is stopped early has seen a sample of all files rather than the first ones
    surv.sort(key=lambda m: hashlib.sha1(("order/" + m["id"]).encode()).hexdigest())
    limit = int(argv[argv.index("--limit") + 1]) if "--limit" in argv else None
    rp = os.path.join(OUT, "results.json")
    res = json.load(open(rp)) if os.path.exists(rp) else {}
    anc = anchors()
    n = 0
    for m in surv:
        if m["id"] in res:
            continue
        if limit is not None and n >= limit:
            break
        n += 1
        try:
            with open(os.path.join("/repo", m["file"])) as fh:
                if fh.read()[m["start"]:m["end"]] != m["old"]:
                    continue  # the file was changed (a fix: commit) after `gen`: this mutant is stale
        except OSError:
            continue
        own = list(anc.get(m["file"], []))
        # cheap, broad checks first; the expensive ones (C01, C11, C14) last
        cost = {"C01": 3, "C11": 4, "C14": 5, "C12": 2, "C07": 2}
        ids = sorted(own + [c for c in ("C07", "C12", "C20") if c not in own], key=lambda c: (cost.get(c, 1), c))
        base, copy = make_copy(m)
        out = {}
        try:
            for pid in ids:
                p = subprocess.run(["./check", pid, "quick"], cwd=VERIF, env=dict(os.environ, VERIF_REPO=copy), capture_output=True, text=True)
                out[pid] = p.returncode
                if p.returncode == 1:
                    break  # killed: one check is enough
        finally:
            shutil.rmtree(base, ignore_errors=True)
        killed = [pid for pid, rc in out.items() if rc == 1]
        res[m["id"]] = {"file": m["file"], "line": m["line"], "op": m["op"], "what": m["what"], "checks": out, "killed_by": killed}
        json.dump(res, open(rp, "w"), indent=0)
        print(m["id"], m["file"].split("/")[-1], m["line"], m["op"], "KILLED by " + killed[0] if killed else "SURVIVED " + str(out), "|", m["what"][:70], flush=True)
    cmd_report([])


def cmd_second(argv):
    """tools/mutate.py second C20,C14[,...]: run further checks on the mutants that survived the first pass."""
    extra_ids = argv[0].split(",")
    muts = {m["id"]: m for m in json.load(open(os.path.join(OUT, "survivors.json")))}
    rp = os.path.join(OUT, "results.json")
    res = json.load(open(rp))
    for mid, r in res.items():
        if r["killed_by"] or mid not in muts:
            continue
        todo = [c for c in extra_ids if c not in r["checks"]]
        if not todo:
            continue
        base, copy = make_copy(muts[mid])
        try:
            for pid in todo:
                p = subprocess.run(["./check", pid, "quick"], cwd=VERIF, env=dict(os.environ, VERIF_REPO=copy), capture_output=True, text=True)
                r["checks"][pid] = p.returncode
                if p.returncode == 1:
                    r["killed_by"] = [pid]
                    break
        finally:
            shutil.rmtree(base, ignore_errors=True)
        json.dump(res, open(rp, "w"), indent=0)
        print(mid, r["file"].split("/")[-1], r["line"], r["op"], ("KILLED by " + r["killed_by"][0]) if r["killed_by"] else "still survives", "|", r["what"][:70], flush=True)
    cmd_report([])


def cmd_recheck(argv):
    """tools/mutate.py recheck: the checks have been strengthened since many verdicts were recorded.  Every recorded survivor whose
    mutant still applies to /repo as it is now runs again against its checks as they are now; one that no longer applies (the file
    was changed by a later fix: commit) is marked stale.  Verdicts carry `rechecked` = the /verif commit they were obtained at."""
    muts = {m["id"]: m for m in json.load(open(os.path.join(OUT, "survivors.json")))}
    rp = os.path.join(OUT, "results.json")
    res = json.load(open(rp))
    head = subprocess.run(["git", "-C", VERIF, "rev-parse", "--short", "HEAD"], capture_output=True, text=True).stdout.strip()
    for mid, r in sorted(res.items()):
        if r["killed_by"] or r.get("rechecked") or r.get("stale"):
            continue
        m = muts.get(mid)
        try:
            ok = m is not None and open(os.path.join("/repo", m["file"])).read()[m["start"]:m["end"]] == m["old"]
        except OSError:
            ok = False
        if not ok:
            r["stale"] = True
            json.dump(res, open(rp, "w"), indent=0)
            print(mid, r["file"].split("/")[-1], r["line"], "STALE", flush=True)
            continue
        base, copy = make_copy(m)
        try:
            for pid in list(r["checks"]):
                p = subprocess.run(["./check", pid, "quick"], cwd=VERIF, env=dict(os.environ, VERIF_REPO=copy), capture_output=True, text=True)
                r["checks"][pid] = p.returncode
                if p.returncode == 1:
                    r["killed_by"] = [pid]
                    break
        finally:
            shutil.rmtree(base, ignore_errors=True)
        r["rechecked"] = head
        json.dump(res, open(rp, "w"), indent=0)
        print(mid, r["file"].split("/")[-1], r["line"], r["op"], ("KILLED by " + r["killed_by"][0]) if r["killed_by"] else "still survives", "|", r["what"][:70], flush=True)
    cmd_report([])


def cmd_rxdiff(argv):
    """tools/mutate.py rxdiff [examples]: every recorded survivor that still applies and sits in the compile side (src/jasm/jasm_regex,
    global_definitions.py, the shipped macro file) compiles the same generated rules as the clean tree (vlib/rxdump.py); the number
    of rules whose regex text (or error) differs is recorded.  0 = equivalent on the generated domain."""
    n = argv[0] if argv else "400"
    muts = {m["id"]: m for m in json.load(open(os.path.join(OUT, "survivors.json")))}
    rp = os.path.join(OUT, "results.json")
    res = json.load(open(rp))
    clean = os.path.join(OUT, "rx_clean.json")
    env0 = dict(os.environ, PYTHONHASHSEED="0")
    env0.pop("VERIF_REPO", None)
    subprocess.run(["/venv/bin/python", "-m", "vlib.rxdump", clean, n], cwd=VERIF, env=env0, check=True, capture_output=True)
    base_rows = json.load(open(clean))
    for mid, r in sorted(res.items()):
        if r["killed_by"] or r.get("stale") or "rxdiff" in r:
            continue
        m = muts.get(mid)
        side = m is not None and ("/jasm_regex/" in m["file"] or m["file"].endswith(("global_definitions.py", "jasm_macros.yaml")))
        try:
            ok = side and open(os.path.join("/repo", m["file"])).read()[m["start"]:m["end"]] == m["old"]
        except OSError:
            ok = False
        if not ok:
            continue
        base, copy = make_copy(m)
        try:
            outp = os.path.join(base, "rx.json")
            p = subprocess.run(["/venv/bin/python", "-m", "vlib.rxdump", outp, n], cwd=VERIF, env=dict(env0, VERIF_REPO=copy), capture_output=True, text=True)
            if p.returncode != 0:
                r["rxdiff"] = {"error": (p.stderr or p.stdout)[-300:]}
            else:
                rows = json.load(open(outp))
                if [x[:3] for x in rows] != [x[:3] for x in base_rows]:
                    raise SystemExit("rxdiff: the generated rule list differs from the clean dump (generators changed meanwhile?) - start again")
                diff = [(a, b) for a, b in zip(base_rows, rows) if a[3] != b[3]]
                r["rxdiff"] = {"rules": len(rows), "differ": len(diff), "examples": [[a[0], a[2], a[4][:200]] for a, _ in diff[:4]]}
        finally:
            shutil.rmtree(base, ignore_errors=True)
        json.dump(res, open(rp, "w"), indent=0)
        print(mid, r["file"].split("/")[-1], r["line"], r["op"], r["rxdiff"].get("differ", "ERR"), "of", r["rxdiff"].get("rules"), "|", r["what"][:60], flush=True)


def cmd_report(argv):
    res = json.load(open(os.path.join(OUT, "results.json")))
    k = sum(1 for r in res.values() if r["killed_by"])
    stale = sum(1 for r in res.values() if not r["killed_by"] and r.get("stale"))
    cur = sum(1 for r in res.values() if not r["killed_by"] and r.get("rechecked"))
    old_ = len(res) - k - stale - cur
    err = sum(1 for r in res.values() if not r["killed_by"] and 2 in r["checks"].values())
    print(f"{len(res)} test-suite-surviving mutants run: {k} killed by a check; {cur} survive the checks as they are now; {stale} stale (file changed by a later fix); "
          f"{old_} survivors not re-run since the checks were strengthened; {err} with a harness error")
    for mid, r in res.items():
        if not r["killed_by"]:
            tag = "STALE" if r.get("stale") else "SURVIVOR" if r.get("rechecked") else "SURVIVOR(old verdict)"
            print(" ", tag, mid, r["file"], r["line"], r["op"], r["what"][:90], r["checks"])


if __name__ == "__main__":
    {"gen": cmd_gen, "filter": cmd_filter, "kill": cmd_kill, "second": cmd_second, "recheck": cmd_recheck, "rxdiff": cmd_rxdiff, "report": cmd_report}[sys.argv[1]](sys.argv[2:])
