#!/bin/sh
# tools/quiet.sh <tier> <seed>...   every check on the unchanged tree at the given VERIF_SEED values; prints one line per non-zero exit
cd "$(dirname "$0")/.." || exit 2
tier="$1"; shift
mkdir -p .work/quiet
for seed in "$@"; do
  for i in 01 02 03 04 05 06 07 08 09 10 11 12 13 14 15 16 17 18 19 20; do
    VERIF_SEED=$seed ./check C$i $tier > .work/quiet/C$i.$tier.$seed.log 2>&1
    rc=$?
    if [ $rc -ne 0 ]; then echo "C$i $tier seed=$seed exit=$rc: $(grep -m3 -E 'VIOLATION|Error|error' .work/quiet/C$i.$tier.$seed.log | tr '\n' ' ')"; fi
  done
  echo "seed $seed done"
done
