#!/usr/bin/env python3
"""Run checks against a patched scratch copy of the repository (never /repo itself).

  tools/sensitivity.py <patch.diff> <ID>[,<ID>...] [quick|thorough] [--seed N] [--keep]

Copies /repo's tracked working tree to a scratch directory outside /repo and /verif, applies the
patch there, runs `./check <ID> <tier>` with VERIF_REPO pointing at the copy, prints the exit
status per property, removes the copy.  Exit 0 iff every listed check exited 1 (caught).
"""
import os
import shutil
import subprocess
import sys
import tempfile

VERIF = os.path.dirname(os.path.dirname(os.path.abspath(__file__)))


def main(argv):
    keep = "--keep" in argv
    argv = [a for a in argv if a != "--keep"]
    seed = None
    if "--seed" in argv:
        i = argv.index("--seed")
        seed = argv[i + 1]
        del argv[i:i + 2]
    patch, ids = argv[0], argv[1].split(",")
    tier = argv[2] if len(argv) > 2 else "quick"
    base = tempfile.mkdtemp(prefix="jasm_sens_", dir="/tmp")
    try:
        copy = os.path.join(base, "repo")
        os.makedirs(copy)
        subprocess.run(f"git -C /repo ls-files -z src tests/macros | (cd /repo && xargs -0 cp --parents -t {copy})", shell=True, check=True)
        r = subprocess.run(["patch", "-p1", "-s", "-d", copy, "-i", os.path.abspath(patch)], capture_output=True, text=True)
        if r.returncode != 0:
            print("PATCH FAILED:", r.stdout, r.stderr)
            return 3
        ok = True
        for pid in ids:
            env = dict(os.environ, VERIF_REPO=copy)
            if seed is not None:
                env["VERIF_SEED"] = seed
            p = subprocess.run(["./check", pid, tier], cwd=VERIF, env=env, capture_output=True, text=True)
            tail = [ln for ln in p.stdout.splitlines() if ln.startswith(("VIOLATION", "C"))][:3]
            print(f"{os.path.basename(os.path.dirname(os.path.abspath(patch)))}/{os.path.basename(patch)} {pid} {tier}: exit {p.returncode}  " + " | ".join(tail)[:300])
            if p.returncode == 2:
                print(p.stderr[-1500:])
            ok = ok and p.returncode == 1
        return 0 if ok else 1
    finally:
        if not keep:
            shutil.rmtree(base, ignore_errors=True)
        else:
            print("kept", base)


if __name__ == "__main__":
    sys.exit(main(sys.argv[1:]))
