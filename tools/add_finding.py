#!/usr/bin/env python3
"""Append a finding to known_findings.json (done by hand, never at check run time).

  tools/add_finding.py <id> <property> <fixed|open> <commit or -> <replay file or case JSON file> "<what>" "<record text>"

The witness is the `case` of the replay file (the property's own case format), so the runner replays it on every run:
a `fixed` witness must hold, an `open` one prints KNOWN-FINDING while it still fails.
"""
import json
import os
import sys

VERIF = os.path.dirname(os.path.dirname(os.path.abspath(__file__)))


def main(a):
    fid, prop, status, commit, path, what, record = a[:7]
    r = json.load(open(path))
    case = r.get("case", r)
    p = os.path.join(VERIF, "known_findings.json")
    k = json.load(open(p))
    assert not any(f["id"] == fid for f in k["findings"]), "id already present"
    entry = {"id": fid, "property": prop, "status": status}
    if commit != "-":
        entry["commit"] = commit
    entry["record"] = (f"fixed: property={prop} {commit} " if status == "fixed" else "") + record
    entry["what"] = what
    entry["witness"] = case
    k["findings"].append(entry)
    json.dump(k, open(p, "w"), indent=1)
    print("added", fid)


if __name__ == "__main__":
    main(sys.argv[1:])
