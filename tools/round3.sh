#!/bin/sh
# tools/round3.sh C02 C09 ...   confirm the three deliveries of each listed round-3 agent as <ID>-5..7, then sweep them (quick tier)
cd "$(dirname "$0")/.." || exit 2
for id in "$@"; do
  for n in 1 2 3; do
    name="$id-$((n+4))"
    if [ -d "seeded/$name" ]; then echo "$name: already filed"; continue; fi
    if [ ! -f "/tmp/seed3/$id/patch$n.diff" ]; then echo "$name: no patch"; continue; fi
    python3 tools/confirm_seed.py /tmp/seed3/$id $n $name > /tmp/seed3/$id/confirm$n.log 2>&1
    tail -1 /tmp/seed3/$id/confirm$n.log | sed "s/^/$name: /"
  done
  python3 tools/sweep.py quick $id-5 $id-6 $id-7
done
