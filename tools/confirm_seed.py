#!/usr/bin/env python3
"""Confirm a seeded change delivered by a sub-agent and file it under /verif/seeded/<name>/.

  tools/confirm_seed.py <agent_dir> <n> <name>     e.g. tools/confirm_seed.py /tmp/seed/C02 1 C02-1

In a scratch git worktree of /repo's HEAD (outside /repo and /verif): demo passes on the clean tree;
patch applies; the test suite gives the baseline result (129 stable tests pass); demo fails with the
patch; after reverting the demo passes again.  Only then are patch.diff, the demo and meta.json copied.
The worktree is removed afterwards.
"""
import json
import os
import shutil
import subprocess
import sys
import tempfile
import xml.etree.ElementTree as ET

VERIF = os.path.dirname(os.path.dirname(os.path.abspath(__file__)))
BASE = json.load(open("/root/.vp/BASELINE.json"))


def sh(cmd, **kw):
    return subprocess.run(cmd, shell=True, capture_output=True, text=True, **kw)


def run_tests(wt):
    xml = os.path.join(wt, "..", "junit.xml")
    sh(f"cd {wt} && PYTHONPATH={wt}/src /venv/bin/python -m pytest -q -p no:cacheprovider --timeout=900 --continue-on-collection-errors --junitxml={xml}")
    passed = set()
    for tc in ET.parse(xml).getroot().iter("testcase"):
        if not any(ch.tag in ("failure", "error", "skipped") for ch in tc):
            passed.add(f"{tc.get('classname')}::{tc.get('name')}")
    return passed


def main(argv):
    agent_dir, n, name = argv[0], argv[1], argv[2]
    patch = os.path.join(agent_dir, f"patch{n}.diff")
    demo = os.path.join(agent_dir, f"demo{n}.py")
    meta_all = json.load(open(os.path.join(agent_dir, "meta.json")))
    meta = next((m for m in meta_all if m.get("patch") == f"patch{n}.diff"), meta_all[int(n) - 1])
    base = tempfile.mkdtemp(prefix="jasm_confirm_", dir="/tmp")
    wt = os.path.join(base, "wt")
    ran = []
    ok = False
    try:
        r = sh(f"git -C /repo worktree add --detach {wt} HEAD")
        assert r.returncode == 0, r.stderr
        head = sh("git -C /repo rev-parse --short HEAD").stdout.strip()
        env = f"PYTHONPATH={wt}/src"
        d0 = sh(f"cd {base} && {env} /venv/bin/python {demo}")
        ran.append(f"clean tree ({head}): demo exit {d0.returncode}")
        a = sh(f"git -C {wt} apply --3way {patch}")
        if a.returncode != 0:
            a = sh(f"patch -p1 -d {wt} -i {patch}")
        ran.append(f"apply: exit {a.returncode}")
        assert a.returncode == 0, a.stderr + a.stdout
        passed = run_tests(wt)
        missing = sorted(set(BASE["stable_pass"]) - passed)
        ran.append(f"pytest with patch: {len(passed)} passed, baseline tests not passing: {missing}")
        d1 = sh(f"cd {base} && {env} /venv/bin/python {demo}")
        ran.append(f"patched tree: demo exit {d1.returncode}: {(d1.stdout + d1.stderr).strip()[-300:]}")
        diff = sh(f"git -C {wt} diff HEAD").stdout
        sh(f"git -C {wt} checkout -- . && git -C {wt} reset -q --hard")
        d2 = sh(f"cd {base} && {env} /venv/bin/python {demo}")
        ran.append(f"reverted: demo exit {d2.returncode}")
        ok = d0.returncode == 0 and d1.returncode != 0 and d2.returncode == 0 and not missing
        print("\n".join(ran))
        if ok:
            out = os.path.join(VERIF, "seeded", name)
            os.makedirs(out, exist_ok=True)
            with open(os.path.join(out, "patch.diff"), "w") as f:
                f.write(diff)
            shutil.copy(demo, os.path.join(out, "demo.py"))
            meta_out = {
                "name": name,
                "property": meta.get("property"),
                "summary": meta.get("summary"),
                "needs": meta.get("needs"),
                "source": "independent sub-agent given only the property text and a scratch worktree",
                "agent_ran": meta.get("ran"),
                "confirmed_on": head,
                "confirmed": ran,
                "caught_by": [],
            }
            with open(os.path.join(out, "meta.json"), "w") as f:
                json.dump(meta_out, f, indent=1)
            print("CONFIRMED ->", out)
        else:
            print("NOT CONFIRMED")
    finally:
        sh(f"git -C /repo worktree remove --force {wt}")
        shutil.rmtree(base, ignore_errors=True)
    return 0 if ok else 1


if __name__ == "__main__":
    sys.exit(main(sys.argv[1:]))
