#!/usr/bin/env python3
"""Print a markdown table of the seeded changes and which checks catch them (from seeded/*/meta.json)."""
import json
import os

import sys

VERIF = os.path.dirname(os.path.dirname(os.path.abspath(__file__)))
COMPACT = "--compact" in sys.argv
root = os.path.join(VERIF, "seeded")
def natural(name):
    a, b = name.split("-")
    return (a, int(b))


if COMPACT:
    print("| seed | round | what it needs in order to manifest | caught by |")
    print("|---|---|---|---|")
else:
    print("| seed | property | what the change does (needs) | caught by |")
    print("|---|---|---|---|")
for name in sorted((n for n in os.listdir(root) if os.path.exists(os.path.join(root, n, "meta.json"))), key=natural):
    mp = os.path.join(root, name, "meta.json")
    m = json.load(open(mp))
    if COMPACT:
        needs = (m.get("needs") or m.get("summary") or "").replace("\n", " ").replace("|", "/")
        n = int(name.split("-")[1])
        rnd = m.get("round") or (1 if n <= 2 else 2 if n <= 4 else 3 if n <= 7 else 4)
        held = m.get("heldout", {}).get("result")
        caught = ", ".join(m.get("caught_by") or []) or "**missed**"
        if held is not None and "caught" not in held.values():
            caught += " (missed in the held-out run)"
        print(f"| {name} | {rnd} | {needs[:150]}{'...' if len(needs) > 150 else ''} | {caught} |")
        continue
    summ = (m.get("summary") or "").replace("\n", " ").replace("|", "/")
    needs = (m.get("needs") or "").replace("\n", " ").replace("|", "/")
    txt = summ[:150] + ("..." if len(summ) > 150 else "")
    if needs:
        txt += " *(needs: " + needs[:110] + ("..." if len(needs) > 110 else "") + ")*"
    caught = ", ".join(m.get("caught_by") or []) or "**missed**"
    if m.get("note"):
        caught += " - " + m["note"]
    print(f"| {name} | {m.get('property')} | {txt} | {caught} |")
