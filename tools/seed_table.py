#!/usr/bin/env python3
"""Print a markdown table of the seeded changes and which checks catch them (from seeded/*/meta.json)."""
import json
import os

VERIF = os.path.dirname(os.path.dirname(os.path.abspath(__file__)))
root = os.path.join(VERIF, "seeded")
print("| seed | property | what the change does (needs) | caught by |")
print("|---|---|---|---|")
for name in sorted(os.listdir(root)):
    mp = os.path.join(root, name, "meta.json")
    if not os.path.exists(mp):
        continue
    m = json.load(open(mp))
    summ = (m.get("summary") or "").replace("\n", " ").replace("|", "/")
    needs = (m.get("needs") or "").replace("\n", " ").replace("|", "/")
    txt = summ[:150] + ("..." if len(summ) > 150 else "")
    if needs:
        txt += " *(needs: " + needs[:110] + ("..." if len(needs) > 110 else "") + ")*"
    caught = ", ".join(m.get("caught_by") or []) or "**missed**"
    if m.get("note"):
        caught += " - " + m["note"]
    print(f"| {name} | {m.get('property')} | {txt} | {caught} |")
