#!/usr/bin/env python3
"""Held-out measurement of a seeding round: sweep newly confirmed seeds against the checks as they were BEFORE the round.

  tools/heldout.py <verif commit> <round number> <seed name>...

A git worktree of /verif at <verif commit> is created outside /repo and /verif, the named seeded/<name>/ directories are copied
into it, its own tools/sweep.py runs them (quick tier, VERIF_SEED=1) and the verdicts are written to
seeded/ROUND<round>_HELDOUT.json and into `heldout` of each seed's meta.json here.  The worktree is removed afterwards.
Seeds already listed in the round's file are skipped, so the command can be repeated as deliveries arrive.
"""
import json
import os
import shutil
import subprocess
import sys
import tempfile

VERIF = os.path.dirname(os.path.dirname(os.path.abspath(__file__)))


def main(argv):
    commit, rnd, names = argv[0], argv[1], argv[2:]
    out_p = os.path.join(VERIF, "seeded", f"ROUND{rnd}_HELDOUT.json")
    rec = json.load(open(out_p)) if os.path.exists(out_p) else {"checks_at": commit, "tier": "quick", "seed": 1, "results": {}}
    names = [n for n in names if n not in rec["results"]]
    if not names:
        print("nothing to do")
        return 0
    base = tempfile.mkdtemp(prefix="verif_heldout_", dir="/tmp")
    wt = os.path.join(base, "verif")
    try:
        subprocess.run(["git", "-C", VERIF, "worktree", "add", "--detach", wt, commit], check=True, capture_output=True)
        for n in names:
            dst = os.path.join(wt, "seeded", n)
            if os.path.exists(dst):
                shutil.rmtree(dst)
            shutil.copytree(os.path.join(VERIF, "seeded", n), dst)
        env = dict(os.environ, VERIF_SEED="1")
        subprocess.run(["sh", "setup.sh"], cwd=wt, capture_output=True)
        p = subprocess.run([sys.executable, "tools/sweep.py", "quick", *names], cwd=wt, env=env, capture_output=True, text=True)
        print(p.stdout[-3000:])
        for n in names:
            m = json.load(open(os.path.join(wt, "seeded", n, "meta.json")))
            res = m.get("sweep", {})
            own = res.get(m["property"], "not run")
            rec["results"][n] = own
            mp = os.path.join(VERIF, "seeded", n, "meta.json")
            mm = json.load(open(mp))
            mm["round"] = int(rnd)
            mm["heldout"] = {"checks_at": commit, "result": res}
            json.dump(mm, open(mp, "w"), indent=1)
    finally:
        subprocess.run(["git", "-C", VERIF, "worktree", "remove", "--force", wt], capture_output=True)
        shutil.rmtree(base, ignore_errors=True)
    rec["repo_at"] = subprocess.run(["git", "-C", "/repo", "rev-parse", "--short", "HEAD"], capture_output=True, text=True).stdout.strip()
    rec["caught"] = sum(1 for v in rec["results"].values() if v == "caught")
    rec["total"] = len(rec["results"])
    rec["missed"] = rec["total"] - rec["caught"]
    json.dump(rec, open(out_p, "w"), indent=1)
    print(f"held-out round {rnd}: {rec['caught']} of {rec['total']} caught")
    return 0


if __name__ == "__main__":
    sys.exit(main(sys.argv[1:]))
