#!/usr/bin/env python3
"""Which executable lines of /repo/src/jasm does no check reach?

  tools/linecov.py run [quick] [ID ...]     run the named checks (default: all) with VERIF_LINECOV set, then report
  tools/linecov.py report                   report from what is in .work/linecov

The report lists, per source file, the executable lines (from the compiled code objects) that never executed in any check
process that imports vlib (CLI subprocesses and fresh-interpreter baselines are not traced: jasm/main.py,
parse_arguments.py and logging set-up are reached through them and are listed as 'subprocess-only').  A measuring aid: an
unreached line is a place where no generated input has ever been, so no property can have been decided there.
"""
import glob
import json
import os
import subprocess
import sys

VERIF = os.path.dirname(os.path.dirname(os.path.abspath(__file__)))
SRC = "/repo/src"
DIR = os.path.join(VERIF, ".work", "linecov")
ALL = ["C%02d" % i for i in range(1, 21)]


def executable_lines(path):
    with open(path) as f:
        src = f.read()
    out = set()

    def walk(code):
        doc_line = None
        for _s, _e, ln in code.co_lines():
            if ln:
                out.add(ln)
        for c in code.co_consts:
            if hasattr(c, "co_lines"):
                walk(c)

    walk(compile(src, path, "exec"))
    return out, src.splitlines()


def report():
    seen = {}
    for f in glob.glob(os.path.join(DIR, "*.txt")):
        for line in open(f):
            fn, _, ln = line.strip().rpartition(":")
            if fn:
                seen.setdefault(fn, set()).add(int(ln))
    total = hit = 0
    res = {}
    for root, _d, files in os.walk(os.path.join(SRC, "jasm")):
        for name in sorted(files):
            if not name.endswith(".py"):
                continue
            p = os.path.join(root, name)
            rel = os.path.relpath(p, SRC)
            ex, lines = executable_lines(p)
            got = seen.get(rel, set())
            miss = sorted(ex - got)
            total += len(ex)
            hit += len(ex & got)
            if miss:
                res[rel] = miss
                print("== %s: %d of %d executable lines not reached" % (rel, len(miss), len(ex)))
                for ln in miss:
                    print("   %4d  %s" % (ln, lines[ln - 1].rstrip()[:150]))
    print("reached %d of %d executable lines (%.1f%%)" % (hit, total, 100.0 * hit / max(total, 1)))
    with open(os.path.join(DIR, "unreached.json"), "w") as f:
        json.dump(res, f, indent=1)


def main(argv):
    if argv and argv[0] == "run":
        tier = "quick"
        ids = [a for a in argv[1:] if a.startswith("C")] or ALL
        if "thorough" in argv:
            tier = "thorough"
        os.makedirs(DIR, exist_ok=True)
        for f in glob.glob(os.path.join(DIR, "*.txt")):
            os.unlink(f)
        env = dict(os.environ, VERIF_LINECOV=DIR)
        for pid in ids:
            r = subprocess.run(["./check", pid, tier], cwd=VERIF, env=env, capture_output=True, text=True)
            print(pid, "exit", r.returncode, (r.stdout.strip().splitlines() or [""])[-1][:120], flush=True)
    report()


if __name__ == "__main__":
    main(sys.argv[1:])
