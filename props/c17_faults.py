"""C17 - failures are loud: an unscanned input is never reported as 'not found'."""
import copy
import os

import yaml
from hypothesis import strategies as st

from vlib import env, faults, jasm_io
from vlib.elfw import disassemble_object
from vlib.gen_bytes import build_object, objects
from vlib.gen_listing import att_view, listings, norm_view
from vlib.gen_pattern import describe_inst
from vlib.gen_rules import names_ok
from vlib.refnorm import classify_line
from vlib.render import render
from vlib.runner import Eval

ID = "C17"
LEVEL = "fault_enumeration"
RULE = (
    "A finite fault list is crossed with generated bases. Bases: valid (rule, input) pairs whose fault-free verdict is 'found' (checked on every case) in assembly mode "
    "(generated listing + window description with proper-substring names) and binary mode (generated ELF object + rule derived from its disassembly). Faults, injected alone: "
    "pattern file / input file missing, a directory, a dangling symlink, unreadable (mode 000 in a child without CAP_DAC_OVERRIDE); objdump absent from PATH, exiting 1 / 3, "
    "killed by a signal, failing after half a listing / after its banner; only non-existent sections requested; YAML broken at a drawn offset; pattern missing / null / scalar / "
    "int / mapping; config null / scalar / list; each config key wrongly typed; macros not a list; empty $and/$or/$and_any_order/$not; $not with 2/3 arguments; $deref without "
    "main_reg; negative integer, negative min and min > max times in both spellings on items and on groups; an undefined @macro with no / in-file / extra-file macro "
    "definitions present. Entry points: library API (bool and list mode) and the `python -m jasm.main` command. Outcome classes: error, found, silent-miss; violation <=> "
    "silent-miss. Non-trivial: every case with a confirmed found base; distinct (fault, base) pairs are counted."
)
ASSUMPTIONS = [
    "an unknown or wrongly typed `style` is logged and the default used: for these two fault kinds 'found' is counted as accepted; for every other listed fault both a silent miss and a 'found' without an error are deviations",
    "the unreadable-file cells need capset in a forked child; if that is refused the cell is reported as not exercised",
]

FILE_FAULTS = ["missing", "directory", "dangling-symlink", "unreadable"]
# faults that need a base rule whose verdict DEPENDS on the faulted entry (a silently ignored value must flip 'found' to 'not found'):
# a run of two instructions asked for with times 2, a $deref, an instruction with two described operands, a macro use with times
SPECIAL_BASE_FAULTS = (
    [f"times-{t}-{w}" for t in ("str", "float", "list", "null", "floatbounds", "strbounds", "bool", "boolbounds") for w in ("sibling", "group", "inside")]
    + ["times-only-child-of-mapping-group", "times-neg-in-nested-mapping-group"]
    + ["times-neg-on-macro-use", "times-inverted-on-macro-use", "times-str-on-macro-use"]
    + ["deref-main-reg-null", "deref-offset-null", "deref-index-null"]
    + ["macro-use-label-misspelt", "macro-use-argument-missing", "macro-use-operand-list-under-list-macro"]
    + [f"{g}-operand" for g in ("empty-$and", "empty-$or", "empty-$and_any_order", "empty-$not", "not-2-args", "not-3-args")]
    + ["not-2-args-deref-field", "empty-$or-deref-field"]
)
# the extra macro file that holds the only definition of a macro the rule uses cannot be read (the rule has no macros of its own)
MACRO_FILE_FAULTS = ["macro-file-" + f for f in ("missing", "directory", "dangling-symlink", "unreadable", "one-of-two-missing")]
RULE_FAULTS = (
    ["pattern-file-" + f for f in FILE_FAULTS]
    + ["yaml-broken", "yaml-second-document", "pattern-missing", "pattern-null", "pattern-scalar", "pattern-int", "pattern-mapping", "config-null", "config-scalar", "config-list",
       "cfg-mnemonics-full-match-str", "cfg-mnemonics-full-match-int", "cfg-operands-full-match-str", "cfg-sections-str", "cfg-sections-list-int", "cfg-valid-addr-range-scalar",
       "cfg-valid-addr-range-list", "cfg-valid-addr-range-no-max", "cfg-valid-addr-range-nonhex", "cfg-valid-addr-range-unquoted-bounds", "cfg-valid-addr-range-falsy", "cfg-style-int", "cfg-style-unknown", "macros-not-list-mapping", "macros-not-list-scalar",
       "empty-$and", "empty-$or", "empty-$and_any_order", "empty-$not", "not-2-args", "not-3-args", "deref-no-main-reg",
       "times-neg-int-inside", "times-neg-int-sibling", "times-neg-min-inside", "times-neg-min-sibling", "times-inverted-inside", "times-inverted-sibling",
       "times-neg-int-group", "times-neg-min-group", "times-inverted-group",
       "times-neg-min-only-inside", "times-neg-min-only-sibling", "times-neg-max-inside", "times-neg-max-sibling", "times-neg-max-group",
       "undefined-macro-no-defs", "undefined-macro-file-defs", "undefined-macro-extra-file",
       "undefined-macro-in-mnemonic-file-defs", "undefined-macro-in-mnemonic-extra-file", "undefined-macro-in-operand-file-defs", "undefined-macro-in-operand-extra-file",
       "undefined-macro-key-times-file-defs", "undefined-macro-key-operands-extra-file",
       "undefined-macro-in-last-macro-body", "undefined-macro-in-first-macro-body-extra-file",
       "macro-pattern-int", "macro-pattern-null", "macro-pattern-missing", "macro-name-missing", "macro-entry-scalar", "macro-pattern-int-extra-file"]
    + SPECIAL_BASE_FAULTS
    + MACRO_FILE_FAULTS
)
INPUT_FAULTS = ["input-file-" + f for f in FILE_FAULTS] + ["input-file-utf16"]
BINARY_FAULTS = ["objdump-absent-llvm-objdump-present", "objdump-absent", "objdump-exit1", "objdump-exit3", "objdump-signal", "objdump-half-then-fail", "objdump-banner-then-fail", "sections-all-absent", "archive-unreadable-member"]
# rule faults whose base rule is a fixed text listing (the verdict must depend on the faulted entry) are assembly-mode cells only
ASSEMBLY_ONLY = set(SPECIAL_BASE_FAULTS) | set(MACRO_FILE_FAULTS) | {"cfg-valid-addr-range-unquoted-bounds", "cfg-valid-addr-range-falsy"}
FAULTS = {"assembly": RULE_FAULTS + INPUT_FAULTS, "binary": [f for f in RULE_FAULTS if f not in ASSEMBLY_ONLY] + INPUT_FAULTS + BINARY_FAULTS}
FLOORS = {}
# Faults the tree is known to swallow and that are NOT among the statement's examples of wrongly typed entries that matter: an unknown
# or wrongly typed `style` is logged and the default (att) used.  For these 'found' is counted as accepted; for every other fault a
# 'found' without an error is a deviation.
# ... and bounds written without quotes: `min: 0x1000` is read as the text it says since F52 (the intact pair's verdict is then the
# right answer); decimal-looking bounds (`min: 401000`) are YAML integers and must still fail - both are "loud or read as written".
LENIENT = {"cfg-style-int", "cfg-style-unknown", "cfg-valid-addr-range-unquoted-bounds"}


def budget(tier):
    return {"cases": 900 if tier == "quick" else 20000}


@st.composite
def cases(draw):
    mode = draw(st.sampled_from(["assembly", "assembly", "binary"]))
    fault = draw(st.sampled_from(FAULTS[mode]))
    entry = "cli" if draw(st.integers(0, 5)) == 0 else "api"
    if mode == "assembly":
        L = draw(listings(min_len=2, max_len=8))
        NV = norm_view(L)
        i = draw(st.integers(0, len(L) - 1))
        j = draw(st.integers(i + 1, min(len(L), i + 3)))
        pattern = [describe_inst(draw, NV[k], (False, False)) for k in range(i, j)]
        if not names_ok(pattern):
            pattern = [NV[i][1]]
        base = {"listing": L, "pattern": pattern}
    else:
        base = {"obj": draw(objects(max_sections=3))}
    return {"mode": mode, "fault": fault, "entry": entry, "base": base, "pos": draw(st.integers(0, 10**6)), "garbage": draw(st.sampled_from(["\t- x: [", ": [", "'", "{", "- - : ][", "\x00", "!!python/object:os.system x"]))}


def strategy(tier):
    return cases()


def _set_times(item, t, spelling):
    if isinstance(item, (str, int)):
        return {item: {"times": t}} if spelling == "inside" else {item: [], "times": t}
    d = dict(item)
    name = list(d)[0]
    if spelling == "inside" and not d[name]:
        return {name: {"times": t}}
    d["times"] = t
    return d


def inject_rule_fault(fault, doc, pos, garbage):
    """-> (doc or None, raw text or None, extra macro files content or None)."""
    doc = copy.deepcopy(doc)
    pat = doc.get("pattern")
    k = pos % len(pat)
    raw = None
    extra = None
    if fault == "yaml-second-document":
        # malformed YAML of the multi-document kind: a stray `---` line inside the rule, two rules in one file, text after a `---`
        # (a rule file is one document: whatever stands after the marker is not scanned "as written")
        text = jasm_io.dump_yaml(doc)
        lines = text.splitlines()
        which = pos % 4
        if which == 0 and len(lines) > 1:
            cut = 1 + pos // 4 % (len(lines) - 1)
            while cut < len(lines) and lines[cut][:1] in (" ", "-"):
                cut += 1  # only a top-level line can follow a document marker and leave two well-formed documents
            if cut >= len(lines):
                return None, text + "---\n" + text, None
            return None, "\n".join(lines[:cut]) + "\n---\n" + "\n".join(lines[cut:]) + "\n", None
        if which == 1:
            return None, text + "---\n" + text, None
        if which == 2:
            return None, text + "---\nzz_no_such_mnemonic\n", None
        return None, "---\n" + text + "---\nmacros: []\n", None
    if fault == "yaml-broken":
        text = jasm_io.dump_yaml(doc)
        off = pos % (len(text) + 1)
        raw = text[:off] + garbage + text[off:]
        try:
            yaml.safe_load(raw)
            return None, None, None  # still valid YAML at this offset: not the fault we want
        except yaml.YAMLError:
            return None, raw, None
        except Exception:  # noqa: BLE001
            return None, raw, None
    if fault in SPECIAL_BASE_FAULTS:
        if fault.startswith("macro-use-"):
            # an invocation that does not fit its macro (a wrongly written `pattern` entry): the argument under a label the macro does not
            # have, no argument at all, an operand list under a macro that stands for whole instructions - the rule as written cannot
            # be scanned; before F49 the formal's name was compiled as a literal (silent miss) / the operand list was dropped
            if fault == "macro-use-label-misspelt":
                pat[1] = [{"@yzero_": {"rg_": "eax"}}, {"@yzero_": None, "rg_": "eax"}, {"@yzero_": {"reg": "eax"}}][pos % 3]
            elif fault == "macro-use-argument-missing":
                pat[1] = ["@yzero_", {"@yzero_": None}, {"@yzero_": {"times": 1}}][pos % 3]
            else:
                pat[1] = [{"@yrun_": ["%ebx", "%eax"]}, {"@yrun_": ["zz"]}, {"@yrun_": "zz"}][pos % 3]
            return doc, None, None
        if fault.startswith("times-"):
            kind = fault.split("-")[1]
            if fault == "times-only-child-of-mapping-group":
                # a group written as a mapping that holds nothing but times: an empty group
                pat[1] = {["$or", "$and", "$not", "$and_any_order"][pos % 4]: {"times": 2}}
                return doc, None, None
            if fault == "times-neg-in-nested-mapping-group":
                pat[1] = {"$and": {"$or": {"nop": [], "xor": [], "times": [-2, {"min": 3, "max": 1}, {"min": -1, "max": 2}][pos % 3]}, "cltq": {"times": 0}}}
                return doc, None, None
            bad = {"str": ["2", "'2'", "two"], "float": [2.0, 2.5, -1.5], "list": [[2], [2, 2], []], "null": [None], "neg": [-2], "inverted": [{"min": 3, "max": 1}],
                   "floatbounds": [{"min": 2.0, "max": 2.0}, {"min": 1.0, "max": 2.5}, {"min": 2, "max": 2.5}], "strbounds": [{"min": "2", "max": "2"}, {"min": 2, "max": "2"}],
                   "bool": [True, False], "boolbounds": [{"min": False, "max": True}, {"min": True, "max": 2}, {"min": 2, "max": True}]}[kind]
            bad = bad[pos % len(bad)]
            it = pat[1]
            if fault.endswith("-on-macro-use"):
                spell = pos // 3 % 3
                pat[1] = {"@yrun_": {"times": bad}} if spell == 0 else {"@yrun_": [], "times": bad} if spell == 1 else {"times": bad, "@yrun_": []}
            elif fault.endswith("-inside"):
                pat[1] = {"nop": {"times": bad}}
            else:
                it = dict(it)
                it["times"] = bad
                if pos // 3 % 2:
                    it = {"times": bad, **{k_: v_ for k_, v_ in it.items() if k_ != "times"}}
                pat[1] = it
            return doc, None, None
        if fault.startswith("deref-"):
            key = {"deref-main-reg-null": "main_reg", "deref-offset-null": "constant_offset", "deref-index-null": "register_multiplier"}[fault]
            pat[0]["mov"][0]["$deref"][key] = None
            return doc, None, None
        arg1, arg2 = ["5", "rax"] if pos % 2 == 0 else ["0x5", "%rax"]
        group = {"empty-$and-operand": {"$and": []}, "empty-$or-operand": {"$or": []}, "empty-$and_any_order-operand": {"$and_any_order": []}, "empty-$not-operand": {"$not": []},
                 "not-2-args-operand": {"$not": [arg1, arg2]}, "not-3-args-operand": {"$not": [arg1, arg2, "zz"]}}.get(fault)
        if group is not None:
            # at the first operand, or under an operand-level $or / $and
            where = pos // 2 % 3
            node = group if where == 0 else {"$or": [group, "zz"]} if where == 1 else {"$and": [group]}
            pat[0] = {"add": [node, "rax"] if list(group)[0] != "$not" or where else [node, "rax"]}
            return doc, None, None
        if fault == "not-2-args-deref-field":
            pat[1]["mov"][0]["$deref"]["main_reg"] = [{"$not": ["rbx", "rcx"]}]
        else:
            pat[1]["mov"][0]["$deref"]["main_reg"] = [{"$or": []}]
        return doc, None, None
    if fault == "pattern-missing":
        del doc["pattern"]
    elif fault == "pattern-null":
        doc["pattern"] = None
    elif fault == "pattern-scalar":
        doc["pattern"] = str(pat[0] if isinstance(pat[0], str) else list(pat[0])[0])
    elif fault == "pattern-int":
        doc["pattern"] = 5
    elif fault == "pattern-mapping":
        it = pat[0]
        if not isinstance(it, (str, int)):
            return None, None, None  # a mapping of items with bodies is an accepted spelling of the pattern, not a fault
        doc["pattern"] = {it: None}
    elif fault == "config-null":
        doc["config"] = None
    elif fault == "config-scalar":
        doc["config"] = "fast"
    elif fault == "config-list":
        doc["config"] = ["mnemonics-full-match"]
    elif fault == "cfg-valid-addr-range-falsy":
        # the same range-dependent base; the entry replaced by a wrongly typed value that happens to be falsy
        item = jasm_io.dump_yaml({"pattern": pat})
        raw = "config:\n  valid_addr_range: " + ["[]", "0", "false", "''", "0.0"][pos % 5] + "\n" + item
        return None, raw, None
    elif fault == "cfg-valid-addr-range-unquoted-bounds":
        # the base rule (see evaluate) has correctly quoted bounds and needs them to be found; here the same rule text with one or both
        # bounds unquoted: YAML reads `min: 0x1000` as the integer 4096 - a wrongly typed entry, loud or read as what was written
        rng = doc["config"]["valid_addr_range"]
        which = pos % 3
        lo = rng["min"] if which == 1 else f'"{rng["min"]}"'
        hi = rng["max"] if which == 2 else f'"{rng["max"]}"'
        if which == 0:
            lo, hi = rng["min"], rng["max"]
        item = jasm_io.dump_yaml({"pattern": pat})
        raw = f"config:\n  valid_addr_range:\n    min: {lo}\n    max: {hi}\n{item}"
        return None, raw, None
    elif fault.startswith("cfg-"):
        cfg = dict(doc.get("config") or {})
        cfg.update({
            "cfg-mnemonics-full-match-str": {"mnemonics-full-match": "true"},
            "cfg-mnemonics-full-match-int": {"mnemonics-full-match": 1},
            "cfg-operands-full-match-str": {"operands-full-match": "yes please"},
            "cfg-sections-str": {"sections": ".text"},
            "cfg-sections-list-int": {"sections": [1, 2]},
            "cfg-valid-addr-range-scalar": {"valid_addr_range": "0x10-0x20"},
            "cfg-valid-addr-range-list": {"valid_addr_range": ["10", "20"]},
            "cfg-valid-addr-range-no-max": {"valid_addr_range": {"min": "10"}},
            "cfg-valid-addr-range-nonhex": {"valid_addr_range": {"min": "zz", "max": "10"}},
            "cfg-style-int": {"style": 5},
            "cfg-style-unknown": {"style": "bogus"},
        }[fault])
        doc["config"] = cfg
    elif fault == "macros-not-list-mapping":
        doc["macros"] = {"name": "@x", "pattern": "y"}
    elif fault == "macros-not-list-scalar":
        doc["macros"] = "@x"
    elif fault.startswith("empty-"):
        pat.insert(k, {fault[len("empty-"):]: []})
    elif fault == "not-2-args":
        pat.insert(k, {"$not": ["zzz", "qqq"]})
    elif fault == "not-3-args":
        pat.insert(k, {"$not": ["zzz", "qqq", "www"]})
    elif fault == "deref-no-main-reg":
        pat.insert(k, {"mov": [{"$deref": {"constant_offset": "0x8", "register_multiplier": "%rax", "constant_multiplier": 4}}]})
    elif fault.startswith("times-"):
        _, what, where = fault.split("-", 2) if fault.count("-") == 2 else (None, None, None)
        kind, where = fault[len("times-"):].rsplit("-", 1)
        t = {"neg-int": -1, "neg-min": {"min": -1, "max": 1}, "inverted": {"min": 3, "max": 1}, "neg-min-only": {"min": -2}, "neg-max": {"min": 0, "max": -1}}[kind]
        if where == "group":
            pat[k] = {"$and": [pat[k]], "times": t}
        else:
            pat[k] = _set_times(pat[k], t, where)
    elif fault.startswith("macro-"):
        # a used macro whose definition is malformed: the rule cannot be applied as written
        bad = {"macro-pattern-int": {"name": "@bad_", "pattern": 5}, "macro-pattern-null": {"name": "@bad_", "pattern": None}, "macro-pattern-missing": {"name": "@bad_"},
               "macro-name-missing": {"pattern": ["mov"]}, "macro-entry-scalar": "@bad_", "macro-pattern-int-extra-file": {"name": "@bad_", "pattern": 5}}[fault]
        pat.insert(k, "@bad_")
        if fault.endswith("extra-file"):
            extra = [bad]
        else:
            doc["macros"] = [{"name": "@other_", "pattern": "other"}, bad]
    elif fault in ("undefined-macro-in-last-macro-body", "undefined-macro-in-first-macro-body-extra-file"):
        # the undefined reference is introduced by the expansion itself: it sits in the body of a macro the rule uses
        wrap = {"name": "@wrap_", "pattern": [{"$or": ["zzq", "@zz_undefined"]}] if pos % 2 else [{"mov": ["rax", "@zz_undefined"]}]}
        other = {"name": "@other_", "pattern": "other"}
        pat.insert(k, "@wrap_")
        if fault.endswith("extra-file"):
            extra = [wrap, other]
        else:
            doc["macros"] = [other, wrap]
    elif fault.startswith("undefined-macro"):
        if "-in-mnemonic-" in fault:
            pat.insert(k, "x@zz_undefined")  # substitution inside a longer name is a supported macro use
        elif "-in-operand-" in fault:
            pat.insert(k, {"mov": ["%@zz_undefined"]})
        elif "-key-times-" in fault:
            pat.insert(k, {"@zz_undefined": {"times": 2}})
        elif "-key-operands-" in fault:
            pat.insert(k, {"@zz_undefined": ["rax"]})
        else:
            pat.insert(k, "@zz_undefined")
        if fault.endswith("file-defs"):
            doc["macros"] = [{"name": "@other_", "pattern": "other"}]
        elif fault.endswith("extra-file"):
            extra = [{"name": "@other_", "pattern": "other"}]
    return doc, raw, extra


def make_path_fault(kind, sc, name, good_path):
    """A path that is missing / a directory / a dangling symlink / unreadable (content otherwise as good_path)."""
    p = sc.path(name)
    for q in (p,):
        if os.path.islink(q) or os.path.isfile(q):
            os.unlink(q)
        elif os.path.isdir(q):
            os.rmdir(q)
    if kind == "missing":
        return p
    if kind == "directory":
        os.mkdir(p)
        return p
    if kind == "dangling-symlink":
        os.symlink(os.path.join(sc.dir, "nowhere-to-be-found"), p)
        return p
    if kind == "utf16":
        # the same content saved as UTF-16 with a byte-order mark (what a PowerShell `objdump > out.s` redirect writes): it is
        # not the text the parser reads, so it cannot have been scanned
        with open(good_path, "rb") as f, open(p, "wb") as g:
            g.write(f.read().decode("latin-1").encode("utf-16"))
        return p
    with open(good_path, "rb") as f, open(p, "wb") as g:
        g.write(f.read())
    os.chmod(p, 0)
    return p


def classify(outcomes):
    """outcomes: list of ('exc'|'ok'|'inconclusive', value...) -> 'error' | 'found' | 'silent-miss' | 'inconclusive'"""
    cls = []
    for r in outcomes:
        if r[0] == "inconclusive":
            cls.append("inconclusive")
        elif r[0] == "exc":
            cls.append("error")
        else:
            cls.append("found" if r[1] else "silent-miss")
    if "silent-miss" in cls:
        return "silent-miss"
    if "inconclusive" in cls:
        return "inconclusive"
    return "error" if "error" in cls else "found"


def run_entry(entry, rule_path, input_path, binary, macros, sc, path_override=None):
    if entry == "api":
        def call():
            saved = os.environ.get("PATH")
            if path_override is not None:
                os.environ["PATH"] = path_override
            try:
                return [jasm_io.match_files(rule_path, input_path, mode="bool", search="first", binary=binary, macros=macros),
                        jasm_io.match_files(rule_path, input_path, mode="list", search="all", binary=binary, macros=macros)]
            finally:
                if path_override is not None:
                    os.environ["PATH"] = saved
        return call
    def call_cli():
        args = ["-p", rule_path, "-b" if binary else "-s", input_path, "--all-matches"]
        if macros:
            args += ["--macros", *macros]
        cwd = sc.path("cli_cwd")
        os.makedirs(cwd, exist_ok=True)
        extra = {"PATH": path_override} if path_override is not None else None
        rc, out, err = jasm_io.cli(args, cwd, env_extra=extra)
        if rc != 0:
            return [("exc", f"exit {rc}", err[-200:])]
        if "RESULT: Pattern found" in err or "RESULT: Pattern found" in out:
            return [("ok", True)]
        return [("ok", False)]
    return call_cli


def evaluate(case):
    ev = Eval()
    sc = jasm_io.scratch()
    mode, fault, entry = case["mode"], case["fault"], case["entry"]
    binary = mode == "binary"
    ev.tags = [f"mode={mode}", f"entry={entry}", f"fault={fault}"]
    # ---- base
    if binary:
        input_path = sc.write("c17.o", build_object(case["base"]["obj"]))
        rc, text, _ = disassemble_object(input_path)
        mns = [c[2].split(" ")[0] for ln in text.split("\n") for c in [classify_line(ln)] if c[0] == "inst"]
        mns = [m for m in mns if m.isalpha() and len(m) >= 3]
        if rc != 0 or not mns:
            ev.tags.append("base-unusable")
            return ev
        m = mns[case["pos"] % len(mns)]
        pattern = [m[:-1]]  # a proper substring: default (substring) matching is what makes it found
        real_text = text
    else:
        L = case["base"]["listing"]
        input_path = sc.write("c17.s", render(att_view(L)))
        pattern = case["base"]["pattern"]
        real_text = ""
    base_cfg = None
    if fault in ("cfg-valid-addr-range-unquoted-bounds", "cfg-valid-addr-range-falsy"):
        if binary:
            ev.tags.append("fault-not-applicable-here")
            return ev
        lo, hi, tgt = [(0x1000, 0x2000, 0x1050), (0x400000, 0x401000, 0x400800), (0x1000, 0x2000, 0x1fff), (0x10, 0x99, 0x50)][case["pos"] // 3 % 4]
        L = [[format(tgt - 0x20, "x"), "push", ["%rbp"], ["%rbp"]], [format(tgt - 0x1c, "x"), "call", [f"{tgt:x} <f>"], [f"{tgt:x}"]], [format(tgt - 0x17, "x"), "ret", [], []]]
        input_path = sc.write("c17.s", render(att_view(L)))
        pattern = [{"call": ["valid_addr"]}]
        base_cfg = {"valid_addr_range": {"min": f"0x{lo:x}", "max": f"0x{hi:x}"}}
    base_macros = None
    base_macro_files = None
    if fault in MACRO_FILE_FAULTS:
        if binary:
            ev.tags.append("fault-not-applicable-here")
            return ev
        a0 = [0x10, 0x401000, 0xadd0][case["pos"] % 3]
        L = [[format(a0, "x"), "push", ["%rbp"], ["%rbp"]], [format(a0 + 1, "x"), "nop", [], []], [format(a0 + 2, "x"), "ret", [], []]]
        pattern = ["push", "@yext_", "ret"] if case["pos"] % 2 else ["push", {"@yext_": {"times": 1}}, "ret"]
        input_path = sc.write("c17.s", render(att_view(L)))
        base_macro_files = [sc.write("c17_ext_macros.yaml", jasm_io.dump_yaml({"macros": [{"name": "@yext_", "pattern": "nop" if case["pos"] % 4 < 2 else [{"$or": ["nop", "zzq"]}]}]}))]
        if fault == "macro-file-one-of-two-missing":
            base_macro_files.append(sc.write("c17_ext2_macros.yaml", jasm_io.dump_yaml({"macros": [{"name": "@yunused_", "pattern": "zzq"}]})))
    if fault in SPECIAL_BASE_FAULTS:
        if binary:
            ev.tags.append("fault-not-applicable-here")
            return ev
        a0 = [0x10, 0x401000, 0xadd0][case["pos"] % 3]
        if fault.startswith("macro-use-"):
            L = [[format(a0, "x"), "push", ["%rbp"], ["%rbp"]], [format(a0 + 1, "x"), "xor", ["%eax", "%eax"], ["%eax", "%eax"]], [format(a0 + 3, "x"), "ret", [], []]]
            if fault == "macro-use-operand-list-under-list-macro":
                pattern = ["push", "@yrun_", "ret"]
                base_macros = [{"name": "@yrun_", "pattern": [{"$or": ["xor", "sub"]}]}]
            else:
                pattern = ["push", {"@yzero_": {"reg_": "eax"}}, "ret"]
                base_macros = [{"name": "@yzero_", "args": ["reg_"], "pattern": [{"xor": ["reg_", "reg_"]}]}]
        elif fault.startswith("times-"):
            L = [[format(a0, "x"), "push", ["%rbp"], ["%rbp"]], [format(a0 + 1, "x"), "nop", [], []], [format(a0 + 2, "x"), "nop", [], []], [format(a0 + 3, "x"), "ret", [], []]]
            if fault.endswith("-on-macro-use"):
                pattern = ["push", {"@yrun_": {"times": 2}}, "ret"]
                base_macros = [{"name": "@yrun_", "pattern": ["nop"]}]
            elif fault.endswith("-group"):
                pattern = ["push", {"$and": ["nop"], "times": 2}, "ret"]
            elif fault.endswith("-sibling"):
                pattern = ["push", {"nop": [], "times": 2}, "ret"]
            else:
                pattern = ["push", {"nop": {"times": 2}}, "ret"]
        elif fault.startswith("deref-"):
            L = [[format(a0, "x"), "mov", ["0x8(%rax,%rbx,4)", "%rcx"], ["[%rax+%rbx*4+0x8]", "%rcx"]], [format(a0 + 5, "x"), "ret", [], []]]
            pattern = [{"mov": [{"$deref": {"main_reg": "rax", "register_multiplier": "rbx", "constant_multiplier": 4, "constant_offset": "0x8"}}]}]
        else:
            L = [[format(a0, "x"), "add", ["$0x5", "%rax"], ["0x5", "%rax"]], [format(a0 + 4, "x"), "mov", ["0x8(%rax)", "%rcx"], ["[%rax+0x8]", "%rcx"]], [format(a0 + 8, "x"), "ret", [], []]]
            pattern = [{"add": ["5", "rax"]}, {"mov": [{"$deref": {"main_reg": "rax", "constant_offset": "0x8"}}]}]
        input_path = sc.write("c17.s", render(att_view(L)))
    doc = jasm_io.make_doc(pattern, config=base_cfg, macros=base_macros)
    rule_path = sc.write("c17_rule.yaml", jasm_io.rule_text(doc))
    base = jasm_io.match_files(rule_path, input_path, mode="list", search="all", binary=binary, macros=base_macro_files)
    if base[0] != "ok" or not base[1]:
        ev.tags.append("base-not-found")
        return ev
    good_rule_path, good_input_path = rule_path, input_path
    # ---- inject
    macros = None
    path_override = None
    needs_nodac = False
    preload = None  # (faulty path, good copy, kind): the path is loaded once while it is still good, in the same process, before the fault
    want_preload = entry == "api" and case["pos"] % 2 == 1
    if fault.startswith("pattern-file-"):
        kind = fault[len("pattern-file-"):]
        good_copy = rule_path
        rule_path = make_path_fault(kind, sc, "c17_faulty_rule.yaml", rule_path)
        needs_nodac = kind == "unreadable"
        if want_preload and kind in ("unreadable", "missing"):
            preload = (rule_path, good_copy, kind)
    elif fault.startswith("input-file-"):
        kind = fault[len("input-file-"):]
        good_copy = input_path
        input_path = make_path_fault(kind, sc, "c17_faulty_input", input_path)
        needs_nodac = kind == "unreadable"
        if want_preload and kind in ("unreadable", "missing"):
            preload = (input_path, good_copy, kind)
    elif fault in MACRO_FILE_FAULTS:
        kind = fault[len("macro-file-"):]
        if kind == "one-of-two-missing":
            # the file with the definition is gone, the other one (which defines something else) is readable
            macros = [make_path_fault("missing", sc, "c17_faulty_macros.yaml", base_macro_files[0]), base_macro_files[1]]
            if case["pos"] % 2:
                macros.reverse()
        else:
            macros = [make_path_fault(kind, sc, "c17_faulty_macros.yaml", base_macro_files[0])]
            needs_nodac = kind == "unreadable"
            if want_preload and kind in ("unreadable", "missing"):
                preload = (macros[0], base_macro_files[0], kind)
    elif fault == "objdump-absent-llvm-objdump-present":
        # no objdump on PATH, but a program of another name that disassembles in another format: the input is not scanned by what
        # the listing parser reads, so the operation must fail like with no disassembler at all
        d = sc.path("llvmbin")
        os.makedirs(d, exist_ok=True)
        for nm in ("llvm-objdump", "gobjdump-15", "objdump-llvm"):
            with open(os.path.join(d, nm), "w") as f_:
                f_.write("#!/bin/sh\nprintf '\\nx.o:\\tfile format elf64-x86-64\\n\\nDisassembly of section .text:\\n\\n0000000000000000 <main>:\\n       0: 55                            pushq   %%rbp\\n       1: 48 89 e5                      movq    %%rsp, %%rbp\\n       4: c3                            retq\\n'\nexit 0\n")
            os.chmod(os.path.join(d, nm), 0o755)
        path_override = d
    elif fault.startswith("objdump-"):
        kind = fault[len("objdump-"):]
        if kind == "absent":
            d = sc.path("emptybin")
            os.makedirs(d, exist_ok=True)
            path_override = d
        else:
            d = sc.path("fakebin_" + kind)
            faults.make_fake_objdump(d, kind, real_text)
            path_override = d + os.pathsep + "/usr/bin" + os.pathsep + "/bin"
    elif fault == "archive-unreadable-member":
        # an `ar` archive of a small readable object and a truncated copy of the object that holds the match: objdump prints the
        # first member's disassembly, reports `file format not recognized` for the second and exits 1 - the input was not disassembled
        import subprocess

        from vlib.elfw import make_elf

        d_ = os.path.dirname(input_path)
        with open(input_path, "rb") as f_:
            whole = f_.read()
        with open(os.path.join(d_, "c17_good.o"), "wb") as f_:
            f_.write(make_elf([(".text", bytes.fromhex("f4f4"), True)], [("g", 1, 0)]))
        with open(os.path.join(d_, "c17_bad.o"), "wb") as f_:
            f_.write(whole[: 40 + case["pos"] % 24])
        arch = os.path.join(d_, "c17_faulty.a")
        if os.path.exists(arch):
            os.unlink(arch)
        order = ["c17_good.o", "c17_bad.o"] if case["pos"] % 2 else ["c17_bad.o", "c17_good.o"]
        if subprocess.run(["ar", "rcD", "c17_faulty.a", *order], cwd=d_, capture_output=True).returncode != 0:
            ev.tags.append("fault-not-applicable-here")
            return ev
        input_path = arch
    elif fault == "sections-all-absent":
        doc2 = jasm_io.make_doc(pattern, config={"sections": [".nosuch_a", ".nosuch_b"]})
        rule_path = sc.write("c17_rule.yaml", jasm_io.rule_text(doc2))
    else:
        doc2, raw, extra = inject_rule_fault(fault, doc, case["pos"], case["garbage"])
        if doc2 is None and raw is None:
            ev.tags.append("fault-not-applicable-here")
            return ev
        rule_path = sc.write("c17_rule.yaml", raw if raw is not None else jasm_io.rule_text(doc2))
        if extra is not None:
            macros = [sc.write("c17_macros.yaml", jasm_io.dump_yaml({"macros": extra}))]
    if entry == "cli" and path_override is not None and fault == "objdump-absent":
        # the CLI child needs python itself; only objdump must be missing
        pass
    call = run_entry(entry, rule_path, input_path, binary, macros, sc, path_override)
    if preload is not None:
        # the same path answered once while the file was still there and readable (same process, same size, same timestamps):
        # the failure afterwards must be as loud as in a fresh process
        ev.tags.append("fault-after-successful-load")
        plain_call = call
        faulty_path, good_copy, pkind = preload

        def call():
            import shutil

            if os.path.lexists(faulty_path):
                os.chmod(faulty_path, 0o600)
                os.unlink(faulty_path)
            shutil.copy2(good_copy, faulty_path)
            first = plain_call()
            if pkind == "unreadable":
                os.chmod(faulty_path, 0)
            else:
                os.unlink(faulty_path)
            if classify(first) != "found":
                return [("inconclusive", "preload-not-found")]
            return plain_call()

    if needs_nodac:
        # control: the same entry point on the intact pair, in the same kind of capability-less child, must still say 'found'
        control = run_entry(entry, good_rule_path, good_input_path, binary, base_macro_files, sc, None)
        res = faults.run_without_dac(lambda: (control(), call()))
        if res[0] != "done":
            ev.tags.append("cell-not-exercised:" + res[1][:40])
            return ev
        if classify(res[1][0]) != "found":
            ev.tags.append("cell-not-exercised:control-run-not-found")
            return ev
        outcomes = res[1][1]
    else:
        outcomes = call()
    for p in (sc.path("c17_faulty_rule.yaml"), sc.path("c17_faulty_input"), sc.path("c17_faulty_macros.yaml")):
        try:
            if os.path.islink(p) or os.path.isfile(p):
                os.chmod(p, 0o600) if not os.path.islink(p) else None
                os.unlink(p)
            elif os.path.isdir(p):
                os.rmdir(p)
        except OSError:
            pass
    ev.subcases = len(outcomes)
    cls = classify(outcomes)
    ev.tags.append(f"outcome={cls}")
    if cls == "inconclusive":
        ev.inconclusive += 1
    elif cls == "silent-miss":
        ev.dev("silent-miss", fault=fault, mode=mode, entry=entry, outcomes=[list(map(str, o))[:3] for o in outcomes], rule=(open(rule_path).read()[:400] if os.path.isfile(rule_path) else None))
    elif cls == "found" and fault not in LENIENT:
        # "the operation terminates with an error": a listed fault that is swallowed - the verdict of the intact pair reported as if
        # nothing were wrong - is not the silent miss the second sentence is about, but it is not an error either
        ev.dev("fault-accepted-without-error", fault=fault, mode=mode, entry=entry, outcomes=[list(map(str, o))[:3] for o in outcomes], rule=(open(rule_path).read()[:400] if os.path.isfile(rule_path) else None))
    ev.nontrivial = True
    ev.keys = [(fault, mode, entry, str(case["base"])[:2000])]
    ev.sample = {"fault": fault, "mode": mode, "entry": entry, "outcome": cls, "pattern": pattern}
    return ev


# ---------------------------------------------------------------------------------- the complete (fault x mode) grid
def _grid_bases(seed, per_mode):
    """Bases from a seeded pass of the same generator (a pure function of VERIF_SEED): per_mode usable ones per input mode."""
    import hypothesis
    from hypothesis import HealthCheck, Phase, given, settings

    got = {"assembly": [], "binary": []}

    @hypothesis.seed(seed * 7919 + 5)
    @settings(max_examples=60 * per_mode, database=None, deadline=None, derandomize=False, phases=[Phase.generate], suppress_health_check=list(HealthCheck))
    @given(cases())
    def collect(c):
        if len(got[c["mode"]]) < per_mode * 3:
            got[c["mode"]].append(c)

    collect()
    return got


def _grid_worker(case):
    return case, evaluate(case)


def extra(tier, seed, rep):
    """Every (fault, input mode) cell at least once through the API (thorough: three bases, and through the CLI as well)."""
    import multiprocessing as mp

    per_mode = 1 if tier == "quick" else 3
    bases = _grid_bases(seed, per_mode)
    todo = []
    for mode in ("assembly", "binary"):
        for fault in FAULTS[mode]:
            for b in bases[mode][: per_mode * 3]:
                for entry in (("api",) if tier == "quick" else ("api", "cli")):
                    todo.append(dict(b, fault=fault, entry=entry))
    hit = {}
    with mp.get_context("fork").Pool(16) as pool:
        for case, ev in pool.imap_unordered(_grid_worker, todo, chunksize=4):
            cell = (case["mode"], case["fault"], case["entry"])
            exercised = any(t.startswith("outcome=") for t in ev.tags)
            if exercised and hit.get(cell, 0) >= per_mode:
                continue  # enough bases for this cell (the spare bases are there for unusable ones)
            rep.add_eval(case, ev)
            if exercised:
                hit[cell] = hit.get(cell, 0) + 1
    cells = [(m, f, e) for m in ("assembly", "binary") for f in FAULTS[m] for e in (("api",) if tier == "quick" else ("api", "cli"))]
    missing = [list(c) for c in cells if not hit.get(c)]
    rep.extra["fault_grid"] = {"cells": len(cells), "exercised": len(cells) - len(missing), "not_exercised": missing}
    rep.exhaustive_parts.append(f"fault grid: {len(cells)} (input mode, fault, entry point) cells, {len(cells) - len(missing)} exercised")
