"""C12 - boolean, list, first/all and address-only results agree with each other."""
from hypothesis import strategies as st

from vlib import jasm_io
from vlib.gen_listing import att_view
from vlib.gen_rules import SHIPPED_MACROS, broad_cases
from vlib.matcheval import run_all_modes, stream_sample
from vlib.render import render
from vlib.runner import Eval

ID = "C12"
LEVEL = "exploration"
RULE = (
    "Rule/listing pairs from the broadest generator (every construct, incl. nullable rules with min:0, shipped macros, restarting addresses, "
    "byte-continuation lines), each evaluated in all 2x2x2 combinations of return mode (bool/list), search mode (first/all) and address-only flag - "
    "exhaustive over the modes. Oracle (internal consistency, no reference): bool == (list non-empty) within each (search, address-only) cell; all four "
    "bool results equal; first list == one-element prefix of the all list; address-only list == text before the first '::' of each full match, element by "
    "element; an exception in one mode must be an exception in every mode. Non-trivial: found with >= 2 matches (or found by a nullable rule); distinct by canonical hash."
)
ASSUMPTIONS = ["no reference model involved: the relation is agreement of JASM with itself across modes"]
FLOORS = {"found": 0.3, "matches>=2": 0.1}
ALL_EXHAUSTIVE = False


def budget(tier):
    return {"cases": 3000 if tier == "quick" else 60000}


def strategy(tier):
    return broad_cases()


def evaluate(case):
    ev = Eval()
    L = case["listing"]
    text = render(att_view(L), cont=set(case.get("cont", ())))
    macros = [SHIPPED_MACROS] if case["macros"] else None
    cfg = {}
    if case.get("transparent_addr_range"):
        cfg["valid_addr_range"] = {"min": "fffffffff000", "max": "fffffffffff0"}
        ev.tags.append("addr-range-observer")
    if case.get("cont") and len(case["cont"]) % 2:
        cfg["style"] = "att"
    mn_full, op_full = case.get("flags", [False, False])
    res = run_all_modes(jasm_io.make_doc(case["pattern"], mn_full or None, op_full or None, config=cfg or None), text, macros)
    ev.subcases = 8
    kinds = {k: r[0] for k, r in res.items()}
    ev.tags = [f"feat={f}" for f in case["features"]]
    if "inconclusive" in kinds.values():
        ev.inconclusive += 1
        return ev
    if len(set(kinds.values())) > 1:
        ev.dev("error-in-some-modes-only", outcomes={str(k): list(r[:2]) if r[0] == "exc" else "ok" for k, r in res.items()})
        return ev
    if "exc" in kinds.values():
        ev.tags.append("raises")
        return ev
    val = {k: r[1] for k, r in res.items()}
    bools = {(s, a): val[("bool", s, a)] for s in ("first", "all") for a in (False, True)}
    lists = {(s, a): val[("list", s, a)] for s in ("first", "all") for a in (False, True)}
    if len(set(bools.values())) != 1:
        ev.dev("bool-depends-on-mode", bools={str(k): v for k, v in bools.items()})
    for cell in bools:
        if bools[cell] != bool(lists[cell]):
            ev.dev("bool-vs-list", cell=list(cell), bool=bools[cell], list=lists[cell][:3])
            break
    for a in (False, True):
        if lists[("first", a)] != lists[("all", a)][:1]:
            ev.dev("first-not-prefix-of-all", address_only=a, first=lists[("first", a)], all=lists[("all", a)][:3])
            break
    for s in ("first", "all"):
        full, addr = lists[(s, False)], lists[(s, True)]
        if addr != [t.split("::")[0] if "::" in t else "" for t in full]:
            ev.dev("address-only-vs-full", search=s, full=full[:4], address_only=addr[:4])
            break
    found = bool(lists[("all", False)])
    if found:
        ev.tags.append("found")
    if len(lists[("all", False)]) >= 2:
        ev.tags.append("matches>=2")
    if found and "" in lists[("all", False)]:
        ev.tags.append("empty-match")
    ev.nontrivial = len(lists[("all", False)]) >= 2 or (found and "" in lists[("all", False)])
    ev.sample = {"pattern": case["pattern"], "macros": case["macros"], "stream": stream_sample(L), "all_full": lists[("all", False)][:3], "all_addr": lists[("all", True)][:3], "bool": bools[("first", False)]}
    return ev
