"""C12 - boolean, list, first/all and address-only results agree with each other."""
from hypothesis import strategies as st

from vlib import jasm_io
from vlib.gen_listing import att_view
from vlib.gen_rules import broad_text, SHIPPED_MACROS, broad_cases
from vlib.matcheval import run_all_modes, stream_sample
from vlib.render import render
from vlib.runner import Eval

ID = "C12"
LEVEL = "exploration"
CGF_RUNS = {"thorough": 3000}  # coverage-guided stage (vlib/cgf.py): libFuzzer executions per worker, 16 workers
RULE = (
    "Rule/listing pairs from the broadest generator (every construct, incl. nullable rules with min:0, shipped macros, restarting addresses, "
    "byte-continuation lines), each evaluated in all 2x2x2 combinations of return mode (bool/list), search mode (first/all) and address-only flag - "
    "exhaustive over the modes. Oracle (internal consistency, no reference): bool == (list non-empty) within each (search, address-only) cell; all four "
    "bool results equal; first list == one-element prefix of the all list; address-only list == text before the first '::' of each full match, element by "
    "element; an exception in one mode must be an exception in every mode. The same laws on long listings (> 64 KiB, occurrence straddling a plausible chunk size). Non-trivial: found with >= 2 matches (or found by a nullable rule); distinct by canonical hash."
)
ASSUMPTIONS = ["no reference model involved: the relation is agreement of JASM with itself across modes"]
FLOORS = {"found": 0.3, "matches>=2": 0.1}
ALL_EXHAUSTIVE = False


def budget(tier):
    return {"cases": 3000 if tier == "quick" else 60000}


def strategy(tier):
    return broad_cases()


def agree(ev, res):
    """The agreement laws over the 8 results of one (rule, input); -> the four lists, or None if nothing more can be said."""
    kinds = {k: r[0] for k, r in res.items()}
    if "inconclusive" in kinds.values():
        ev.inconclusive += 1
        return None
    if len(set(kinds.values())) > 1:
        ev.dev("error-in-some-modes-only", outcomes={str(k): list(r[:2]) if r[0] == "exc" else "ok" for k, r in res.items()})
        return None
    if "exc" in kinds.values():
        ev.tags.append("raises")
        return None
    val = {k: r[1] for k, r in res.items()}
    bools = {(s, a): val[("bool", s, a)] for s in ("first", "all") for a in (False, True)}
    lists = {(s, a): val[("list", s, a)] for s in ("first", "all") for a in (False, True)}
    if len(set(bools.values())) != 1:
        ev.dev("bool-depends-on-mode", bools={str(k): v for k, v in bools.items()})
    for cell in bools:
        if bools[cell] != bool(lists[cell]):
            ev.dev("bool-vs-list", cell=list(cell), bool=bools[cell], list=lists[cell][:3])
            break
    for a in (False, True):
        if lists[("first", a)] != lists[("all", a)][:1]:
            ev.dev("first-not-prefix-of-all", address_only=a, first=lists[("first", a)], all=lists[("all", a)][:3])
            break
    for s in ("first", "all"):
        full, addr = lists[(s, False)], lists[(s, True)]
        if addr != [t.split("::")[0] if "::" in t else "" for t in full]:
            ev.dev("address-only-vs-full", search=s, full=[t[:80] for t in full[:4]], address_only=addr[:4])
            break
    return lists


def eval_zone(case):
    """The same laws on a long listing (vlib/longlist.py): the input file is well over 64 KiB and the occurrence straddles a
    plausible chunk size, so size-dependent short cuts (memoised runs, windowed scans) are on the path."""
    from vlib import longlist

    ev = Eval()
    NV, _ = longlist.zone_listing(case["zone_cut"])
    res = run_all_modes(jasm_io.make_doc(longlist.zone_rules()[case["rule"]]), render(NV), None)
    ev.subcases = 8
    ev.tags = ["zone-listing"]
    lists = agree(ev, res)
    if lists is not None and not lists[("all", False)]:
        ev.dev("zone-occurrence-not-found", zone_cut=case["zone_cut"], rule=case["rule"])
    ev.nontrivial = True
    ev.keys = [("zone", case["zone_cut"], case["rule"])]
    return ev


def eval_binary_sections(case):
    """Binary input with a `sections` list in and out of file order: the eight ways of asking agree there as well - also for a rule
    whose only occurrence runs from the last instruction of one section into the first of the next."""
    from props.c18_addr_range import _range_binary

    ev = Eval()
    sc = jasm_io.scratch()
    path = sc.write("c12_sections.elf", _range_binary())
    secs = case["binary_sections"]
    rule = {"ret": ["ret"], "ret-push": ["ret", "push"], "or": [{"$or": ["push", "pop"]}], "call": ["call"]}[case["rule"]]
    rp = sc.write("c12_sections_rule.yaml", jasm_io.rule_text(jasm_io.make_doc(rule, config={"sections": secs})))
    res = {}
    for mode in ("bool", "list"):
        for search in ("first", "all"):
            for only in (False, True):
                res[(mode, search, only)] = jasm_io.match_files(rp, path, mode=mode, search=search, only_addr=only, binary=True)
    ev.subcases = 8
    lists = agree(ev, res)
    ev.tags = ["binary-sections", "binary-sections-rule=" + case["rule"]]
    ev.nontrivial = bool(lists and lists[("all", True)])
    ev.keys = [("binary-sections", tuple(secs), case["rule"])]
    return ev


def eval_many_hits(case):
    """More than four megabytes of matched text in one all-matches run (70 000 hits of about 62 characters): the full-text list and
    the address-only list have the same length and agree element by element, and so do the other modes."""
    from vlib.render import render

    ev = Eval()
    n = case["many_hits"]
    NV = [(format(0x4000000 + 10 * q, "x"), "vfmadd231ps", ["0x12345678(%rax,%rbx,8)", "%zmm30", "%zmm31"]) for q in range(n)] + [(format(0x4000000 + 10 * n, "x"), "ret", [])]
    sc = jasm_io.scratch()
    tp = sc.write("c12_many_hits.s", render(NV))
    rp = sc.write("c12_many_hits_rule.yaml", jasm_io.rule_text(jasm_io.make_doc(["vfmadd231ps"])))
    res = {}
    for mode in ("bool", "list"):
        for search in ("first", "all"):
            for only in (False, True):
                res[(mode, search, only)] = jasm_io.match_files(rp, tp, mode=mode, search=search, only_addr=only)
    ev.subcases = 8
    lists = agree(ev, res)
    if lists is not None and len(lists[("all", True)]) != n:
        ev.dev("all-matches-count", expected=n, observed=len(lists[("all", True)]))
    ev.tags = ["many-hits"]
    ev.nontrivial = True
    ev.keys = [("many-hits", n)]
    return ev


def _zone_worker(case):
    if "many_hits" in case:
        return case, eval_many_hits(case)
    if "binary_sections" in case:
        return case, eval_binary_sections(case)
    return case, eval_zone(case)


def extra(tier, seed, rep):
    import multiprocessing as mp

    from vlib import longlist

    cuts = [2048, 4096, 32768] if tier == "quick" else list(longlist.CUTS)
    todo = [{"zone_cut": c, "rule": r} for c in sorted(cuts, reverse=True) for r in ("pair", "varlen", "ordered-or", "long")]
    # the greedy run across the cut (the rule whose first match a windowed search truncates) at every chunk-size candidate
    todo = [{"zone_cut": c, "rule": "varlen"} for c in sorted(longlist.CUTS, reverse=True) if c not in cuts] + todo
    todo = [{"many_hits": 70000}] + todo
    rep.exhaustive_parts.append("one listing with 70 000 hits (4.3 MB of matched text): the 8 modes agree, the lists are complete")
    todo = [{"binary_sections": list(secs_), "rule": r_} for secs_ in ((".text", ".text.hot"), (".text.hot", ".text"), (".text.hot", ".nosuch", ".text")) for r_ in ("ret", "ret-push", "or", "call")] + todo
    rep.exhaustive_parts.append("binary input with 3 section lists in and out of file order x 4 rules (one of them straddling the section boundary): the 8 modes agree")
    with mp.get_context("fork").Pool(16, maxtasksperchild=1) as pool:
        for case, ev in pool.imap_unordered(_zone_worker, todo, chunksize=1):
            rep.add_eval(case, ev)
    rep.extra["zone_listings"] = {"cuts_all_rules": cuts, "cuts_greedy_run_rule": list(longlist.CUTS), "rules": 4, "modes": 8}


def evaluate(case):
    if "many_hits" in case:
        return eval_many_hits(case)
    if "binary_sections" in case:
        return eval_binary_sections(case)
    if "zone_cut" in case:
        return eval_zone(case)
    ev = Eval()
    ev.tags = [f"feat={f}" for f in case["features"]]
    L = case["listing"]
    text = broad_text(case)
    macros = [SHIPPED_MACROS] if case["macros"] else None
    cfg = {}
    if case.get("transparent_addr_range"):
        cfg["valid_addr_range"] = {"min": "fffffffff000", "max": "fffffffffff0"}
        ev.tags.append("addr-range-observer")
    if case.get("cont") and len(case["cont"]) % 2:
        cfg["style"] = "att"
    if case.get("sections_cfg"):
        cfg["sections"] = case["sections_cfg"]
    mn_full, op_full = case.get("flags", [False, False])
    res = run_all_modes(jasm_io.make_doc(case["pattern"], mn_full or None, op_full or None, config=cfg or None), text, macros)
    ev.subcases = 8
    lists = agree(ev, res)
    if lists is None:
        return ev
    bools_first = res[("bool", "first", False)][1]
    found = bool(lists[("all", False)])
    if found:
        ev.tags.append("found")
    if len(lists[("all", False)]) >= 2:
        ev.tags.append("matches>=2")
    if any(t == "" for key_ in lists for t in lists[key_]):
        # a match that covers no instruction (and has the address '') is no occurrence in any mode (F42)
        ev.dev("empty-match-reported", modes=[list(k_) for k_ in lists if "" in lists[k_]])
    ev.nontrivial = len(lists[("all", False)]) >= 2
    ev.sample = {"pattern": case["pattern"], "macros": case["macros"], "stream": stream_sample(L), "all_full": lists[("all", False)][:3], "all_addr": lists[("all", True)][:3], "bool": bools_first}
    return ev
