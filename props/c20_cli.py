"""C20 - the `jasm` command reports what the library computes."""
import os
import re

from hypothesis import assume, strategies as st

from vlib import jasm_io
from vlib.objsrc import contain
from vlib.elfw import disassemble_object
from vlib.gen_bytes import build_object, objects
from vlib.gen_listing import att_view
from vlib.gen_macro import factor, split_definitions
from vlib.gen_rules import SHIPPED_MACROS, broad_cases, broad_text
from vlib.refnorm import classify_line
from vlib.render import render
from vlib.runner import Eval
from props.c13_macros import base_rule

ID = "C20"
LEVEL = "exploration"
RULE = (
    "Invocations of `python -m jasm.main` in a scratch working directory: rule/listing pairs from the broadest generator (with the shipped macros), macro rules from the C13 "
    "factoring generator with their definitions in 1-2 extra macro files whose file names are drawn (so alphabetical order and given order differ), and generated ELF objects "
    "with -b; crossed with --all-matches, --return_only_address, --macros, in shuffled argument order, every option written short / long / long with '=' / as an unambiguous "
    "abbreviation, with 0-2 of the remaining options (--debug, --info, the two logging switches, --dissasemble-program=objdump) that must not change what is reported, through "
    "`python -m jasm.main` or the installed console script; plus usage errors (no -p; neither / both of -s and -b) and failing "
    "operations (input missing, -b on a non-object, wrongly typed config, undefined macro). Oracle: the library API with the equivalent MatchConfig in list mode: 'RESULT: "
    "Pattern found' iff the API list is non-empty; the sequence of 'Matched address:' payloads equals the API list; exit status 0 iff the API did not raise; usage errors exit 2; "
    "nothing is reported after an error. Non-trivial: >= 2 matches, or macro files needed, or a failing/usage case; distinct by canonical hash."
)
ASSUMPTIONS = ["the CLI logs to stderr at INFO level by default (as shipped); 'Matched address: X' lines carry the API's list elements verbatim"]
FLOORS = {"macro-files-not-in-alphabetical-order": 0.03, "kind=match": 0.5, "kind=failing": 0.08, "kind=usage": 0.03, "opt=all-matches": 0.25, "opt=only-address": 0.25, "macro-files": 0.15, "binary": 0.08, "extra=debug": 0.05, "opt-spelling=abbrev": 0.1, "opt-spelling=long": 0.2, "entry=console-script": 0.1, "relpaths=symlink-dotdot": 0.01, "odd-input-file-name": 0.1, "via-stdin=input": 0.02}
LINE = re.compile(r"Matched address: (.*)$")  # any line, whatever logger format it is printed in: the statement counts lines


EXTRA_OPTIONS = ["--debug", "--info", "--enable_logging_to_file", "--enable_logging_to_terminal", "--dissasemble-program=objdump"]
SPELLINGS = {
    "-p": [["-p", "{}"], ["--pattern", "{}"], ["--pattern={}"], ["--pat", "{}"]],
    "-s": [["-s", "{}"], ["--assembly", "{}"], ["--assembly={}"], ["--assem", "{}"]],
    "-b": [["-b", "{}"], ["--binary", "{}"], ["--binary={}"], ["--bin", "{}"]],
    "--all-matches": [["--all-matches"], ["--all-matches"], ["--all"], ["--all-m"]],
    "--return_only_address": [["--return_only_address"], ["--return_only_address"], ["--return"], ["--return_only"]],
}


def spell(group, n):
    """One way of writing an option group; n selects it (0 = as in the documentation)."""
    alts = SPELLINGS[group[0]]
    alt = alts[n % len(alts)]
    return [a.format(*group[1:]) for a in alt], n % len(alts)


def budget(tier):
    return {"cases": 480 if tier == "quick" else 8000}


@st.composite
def cases(draw):
    kind = draw(st.sampled_from(["match"] * 8 + ["failing", "failing", "usage"]))
    opts = {"all": draw(st.booleans()), "only_addr": draw(st.booleans()), "order": draw(st.integers(0, 10**6))}
    # how the options are written: short / long / long with '=' / an unambiguous abbreviation (argparse accepts all four), further
    # options that must not change what is reported, and the entry point (python -m jasm.main or the installed console script)
    opts["spell"] = draw(st.integers(0, 10**6))
    opts["extras"] = draw(st.lists(st.sampled_from(EXTRA_OPTIONS), max_size=2, unique=True))
    opts["entry"] = draw(st.sampled_from(["module", "module", "module", "script"]))
    if kind == "usage":
        return {"kind": kind, "usage": draw(st.sampled_from(["no-pattern", "no-input", "both-inputs", "unknown-option"])), "opts": opts}
    src = draw(st.sampled_from(["broad", "broad", "macro-files", "macro-files", "binary"]))
    c = {"kind": kind, "src": src, "opts": opts}
    if src == "broad":
        b = draw(broad_cases(max_len=10))
        c.update({"listing": b["listing"], "pattern": b["pattern"], "shipped": b["macros"], "cont": b["cont"], "flags": b["flags"], "section_breaks": b.get("section_breaks", []), "sections_cfg": b.get("sections_cfg")})
    elif src == "macro-files":
        L, pattern = draw(base_rule())
        factored, macros, kinds = factor(draw, pattern)
        assume(macros)
        if draw(st.booleans()):
            # two extra files that depend on each other: the first one's macro is written in terms of the second one's
            lo = {"name": "@lo_", "pattern": [factored[0]]}
            hi = {"name": "@hi_", "pattern": [{"$or": ["@lo_", "zzq"]}]}
            factored[0] = "@hi_"
            in_file, files = macros, [[hi], [lo]]
        else:
            in_file, files = split_definitions(draw, macros)
            if not files:
                files, in_file = [in_file], []
        names = draw(st.lists(st.sampled_from(["a", "b", "m", "z", "k", "top", "base"]), min_size=len(files), max_size=len(files), unique=True))
        c.update({"listing": L, "pattern": factored, "macros_in_file": in_file, "macro_files": files, "file_names": names})
    else:
        c.update({"obj": draw(objects(max_sections=3)), "pick": draw(st.integers(0, 10**6))})
    if src == "macro-files" and kind == "match" and draw(st.integers(0, 2)) == 0:
        # everything named relative to the working directory, the pattern in a sub-directory, and next to the pattern a decoy with the
        # name of each macro file but other definitions: the command must read the files the API reads for the same strings
        c["relpaths"] = draw(st.sampled_from(["pattern-in-subdir+decoy", "pattern-in-subdir+decoy", "pattern-in-subdir", "all-in-cwd", "symlink-dotdot", "symlink-dotdot"]))
    if src in ("broad", "macro-files") and draw(st.integers(0, 4)) == 0:
        c["double_listing"] = True  # the listing of an archive / of two objects: two `file format` title lines, addresses restart
    if src == "binary" and draw(st.integers(0, 2)) == 0:
        c["container"] = draw(st.sampled_from(["ar-two", "ar-two", "ar", "thin-ar", "coff"]))
    if kind == "match" and src in ("broad", "macro-files") and not c.get("relpaths") and draw(st.integers(0, 7)) == 0:
        # the listing (or the rule) is not a regular file: `objdump -d x | jasm -p r.yaml -s /dev/stdin`
        c["via_stdin"] = draw(st.sampled_from(["input", "input", "pattern"]))
    if kind == "failing":
        c["failure"] = draw(st.sampled_from(["input-missing", "binary-on-text", "config-type", "undefined-macro", "rule-missing", "empty-group", "objdump-absent", "objdump-absent"]))
    return c


def strategy(tier):
    return cases()


def _api(rule_path, input_path, opts, macros, binary):
    return jasm_io.match_files(rule_path, input_path, mode="list", search="all" if opts["all"] else "first", only_addr=opts["only_addr"], macros=macros, binary=binary)


def evaluate(case):
    ev = Eval()
    sc = jasm_io.scratch()
    cwd = sc.path("c20_cwd")
    os.makedirs(cwd, exist_ok=True)
    kind = case["kind"]
    opts = case["opts"]
    ev.tags = [f"kind={kind}"]
    if kind == "usage":
        rp = sc.write("c20_rule.yaml", "pattern:\n  - mov\n")
        lp = sc.write("c20.s", render([("10", "mov", ["%rax", "%rbx"])]))
        args = {"no-pattern": ["-s", lp], "no-input": ["-p", rp], "both-inputs": ["-p", rp, "-s", lp, "-b", lp], "unknown-option": ["-p", rp, "-s", lp, "--frobnicate"]}[case["usage"]]
        rc, out, err = jasm_io.cli(args, cwd)
        ev.tags.append("usage=" + case["usage"])
        if rc != 2:
            ev.dev("usage-error-exit-status", usage=case["usage"], exit=rc, expected=2)
        if "Matched address" in err or "RESULT" in err:
            ev.dev("reported-after-usage-error", stderr=err[-300:])
        ev.nontrivial = True
        return ev
    binary = case["src"] == "binary"
    macros = None
    doc_macros = None
    if case["src"] == "broad":
        input_path = sc.write("c20.s", broad_text(case))
        pattern = case["pattern"]
        macros = [SHIPPED_MACROS] if case["shipped"] else None
    elif case["src"] == "macro-files":
        input_path = sc.write("c20.s", render(att_view(case["listing"])))
        pattern = case["pattern"]
        doc_macros = case["macros_in_file"] or None
        macros = [sc.write(f"{nm}_macros.yaml", jasm_io.dump_yaml({"macros": f})) for nm, f in zip(case["file_names"], case["macro_files"])]
        ev.tags.append("macro-files")
        if [os.path.basename(m) for m in macros] != sorted(os.path.basename(m) for m in macros):
            ev.tags.append("macro-files-not-in-alphabetical-order")
    else:
        input_path = sc.write("c20.o", build_object(case["obj"]))
        rc0, text, _ = disassemble_object(input_path)
        mns = [c[2].split(" ")[0] for ln in text.split("\n") for c in [classify_line(ln)] if c[0] == "inst"]
        mns = [m for m in mns if m.isalpha()]
        pattern = [mns[case["pick"] % len(mns)]] if mns else ["ret"]
        ev.tags.append("binary")
    if case.get("double_listing") and not binary:
        with open(input_path) as f_:
            one = f_.read()
        with open(input_path, "w") as f_:
            f_.write(one + one)
        ev.tags.append("two-title-lines")
    if binary and case.get("container"):
        input_path, ctag = contain(sc, input_path, case)
        ev.tags.append(ctag)
    if not case.get("relpaths") and opts.get("order", 0) % 4 == 1 and os.path.isfile(input_path):
        # file names are the user's business: a URL-escaped name as a browser saves it, blanks, braces, shell metacharacters
        odd = ["dump%20of%20lib foo", "a%d.b%s", "list&ing$HOME;x", "d\u00e9sassembl\u00e9 (1)", "100%_{0}_#2"][opts["order"] // 4 % 5] + os.path.splitext(input_path)[1]
        newp = os.path.join(os.path.dirname(input_path), odd)
        with open(input_path, "rb") as f_, open(newp, "wb") as g_:
            g_.write(f_.read())
        input_path = newp
        ev.tags.append("odd-input-file-name")
    mn_full, op_full = case.get("flags", [False, False])
    doc = jasm_io.make_doc(pattern, mn_full or None, op_full or None, macros=doc_macros, config={"sections": case["sections_cfg"]} if case.get("sections_cfg") else None)
    rule_path = sc.write("c20_rule.yaml", jasm_io.rule_text(doc))
    api_cwd = None
    if binary and kind == "match" and not case.get("relpaths") and opts.get("order", 0) % 4 in (2, 3) and os.path.isfile(input_path) and "odd-input-file-name" not in ev.tags:
        # the binary lies in the working directory under the name of a program that is also on PATH and is given by that bare name:
        # the file named is ./ls, for the command as for the library
        bare = ["ls", "cat", "objdump", "sh"][opts["order"] // 4 % 4]
        with open(input_path, "rb") as f_, open(os.path.join(cwd, bare), "wb") as g_:
            g_.write(f_.read())
        input_path = bare
        api_cwd = cwd
        ev.tags.append("binary-under-the-bare-name-of-a-program-on-PATH")
    if case.get("relpaths") and case["src"] == "macro-files" and kind == "match":
        rel = case["relpaths"]
        sub = "rules" if rel.startswith("pattern-in-subdir") else "."
        os.makedirs(os.path.join(cwd, sub), exist_ok=True)

        def put(relname, data):
            with open(os.path.join(cwd, relname), "w") as f_:
                f_.write(data)
            return relname

        rule_path = put(os.path.join(sub, "rule.yaml") if sub != "." else "rule.yaml", jasm_io.rule_text(doc))
        with open(input_path) as f_:
            input_path = put("listing.s", f_.read())
        macros = [put(f"{nm}_macros.yaml", jasm_io.dump_yaml({"macros": f})) for nm, f in zip(case["file_names"], case["macro_files"])]
        if rel == "symlink-dotdot":
            # `current` is a symbolic link to a directory two levels down: `current/../listing.s` is store/releases/listing.s (what the
            # operating system resolves), not ./listing.s - where a decoy with other contents lies
            os.makedirs(os.path.join(cwd, "store", "releases", "v2"), exist_ok=True)
            if not os.path.islink(os.path.join(cwd, "current")):
                os.symlink(os.path.join("store", "releases", "v2"), os.path.join(cwd, "current"))
            with open(os.path.join(cwd, "listing.s")) as f_:
                real = f_.read()
            put(os.path.join("store", "releases", "listing.s"), real)
            put("listing.s", render([("10", "zzq", [])]))
            input_path = os.path.join("current", "..", "listing.s")
            put(os.path.join("store", "releases", "rule.yaml"), jasm_io.rule_text(doc))
            put("rule.yaml", "pattern:\n  - zzqq\n")
            rule_path = os.path.join("current", "..", "rule.yaml")
            macros = [put(os.path.join("store", "releases", f"{nm}_macros.yaml"), jasm_io.dump_yaml({"macros": f})) for nm, f in zip(case["file_names"], case["macro_files"])]
            for nm, f in zip(case["file_names"], case["macro_files"]):
                put(f"{nm}_macros.yaml", jasm_io.dump_yaml({"macros": [dict(m_, pattern="zzqq") for m_ in f]}))
            macros = [os.path.join("current", "..", f"{nm}_macros.yaml") for nm in case["file_names"]]
        if rel.endswith("+decoy"):
            for nm, f in zip(case["file_names"], case["macro_files"]):
                put(os.path.join(sub, f"{nm}_macros.yaml"), jasm_io.dump_yaml({"macros": [dict(m_, pattern="zzqq") for m_ in f]}))
        api_cwd = cwd
        ev.tags.append("relpaths=" + rel)
    if kind == "failing":
        f = case["failure"]
        ev.tags.append("failure=" + f)
        if f == "input-missing":
            input_path = sc.path("c20_missing_input")
        elif f == "binary-on-text":
            input_path = sc.write("c20_text_as_binary.o", "this is not an object file\n")
            binary = True
        elif f == "config-type":
            rule_path = sc.write("c20_rule.yaml", jasm_io.rule_text(jasm_io.make_doc(pattern, macros=doc_macros, config={"operands-full-match": "yes"})))
        elif f == "undefined-macro":
            rule_path = sc.write("c20_rule.yaml", jasm_io.rule_text(jasm_io.make_doc(list(pattern) + ["@zz_undefined"], macros=(doc_macros or []) + [{"name": "@spare_", "pattern": "x"}])))
        elif f == "rule-missing":
            rule_path = sc.path("c20_missing_rule.yaml")
        elif f == "empty-group":
            rule_path = sc.write("c20_rule.yaml", jasm_io.rule_text(jasm_io.make_doc(list(pattern) + [{"$or": []}], macros=doc_macros)))
    path_override = None
    if kind == "failing" and case["failure"] == "objdump-absent":
        # -b on a real object, but no objdump on PATH
        if not binary:
            from vlib.elfw import make_elf

            input_path = sc.write("c20_noobjdump.o", make_elf([(".text", bytes.fromhex("554889e5c3"), True)], [("main", 1, 0)]))
            binary = True
        d = sc.path("c20_emptybin")
        os.makedirs(d, exist_ok=True)
        path_override = d
    # ---- API
    saved_path = os.environ.get("PATH")
    if path_override is not None:
        os.environ["PATH"] = path_override
    saved_cwd = os.getcwd()
    if api_cwd is not None:
        os.chdir(api_cwd)  # the same strings, resolved from the same working directory as the command's
    try:
        api = _api(rule_path, input_path, opts, macros, binary)
    finally:
        os.chdir(saved_cwd)
        if path_override is not None:
            os.environ["PATH"] = saved_path
    if api[0] == "inconclusive":
        ev.inconclusive += 1
        return ev
    # ---- CLI, arguments in a drawn order
    groups = [["-p", rule_path], ["-b" if binary else "-s", input_path]]
    if opts["all"]:
        groups.append(["--all-matches"])
        ev.tags.append("opt=all-matches")
    if opts["only_addr"]:
        groups.append(["--return_only_address"])
        ev.tags.append("opt=only-address")
    sp = opts.get("spell", 0)
    spelled = []
    for grp in groups:
        # a path that starts with '-' cannot follow its option as a separate word; such paths are not generated
        words, which = spell(grp, sp)
        sp //= 5
        spelled.append(words)
        if which:
            ev.tags.append("opt-spelling=" + ("long", "long", "abbrev-or-eq", "abbrev")[which])
    for x in opts.get("extras", []):
        spelled.append([x])
        ev.tags.append("extra=" + x.lstrip("-").split("=")[0])
    groups = spelled
    order = opts["order"]
    args = []
    g = list(groups)
    while g:
        args += g.pop(order % len(g))
        order //= 7
    if macros:
        # --macros takes nargs='+': keep it last so that it cannot swallow other arguments
        args += ["--macros", *macros]
    entry = opts.get("entry", "module")
    if entry == "script":
        ev.tags.append("entry=console-script")
    stdin_text = None
    if case.get("via_stdin") and not binary and kind == "match":
        which = "-s" if case["via_stdin"] == "input" else "-p"
        real = input_path if which == "-s" else rule_path
        with open(real if os.path.isabs(real) else os.path.join(cwd, real)) as f_:
            stdin_text = f_.read()
        args = ["/dev/stdin" if a == real else a.replace(real, "/dev/stdin") if a.endswith("=" + real) else a for a in args]
        ev.tags.append("via-stdin=" + case["via_stdin"])
    log_blocked = False
    import zlib

    if kind == "match" and zlib.crc32(repr([os.path.basename(a_) for a_ in args]).encode()) % 8 == 5:
        # the per-second log file of the INFO level cannot be opened (a directory stands in its place for the coming seconds): the
        # command may fail - with a non-zero status - or report once what the library computes; nothing else
        import datetime

        now = datetime.datetime.today()
        for ds in range(0, 12):
            blocked = os.path.join(cwd, "logs", "INFO", (now + datetime.timedelta(seconds=ds)).strftime("%Y_%m_%d_%H_%M_%S") + ".log")
            if os.path.isfile(blocked):
                os.unlink(blocked)  # (left by an earlier command of the same second)
            os.makedirs(blocked, exist_ok=True)
        log_blocked = True
        ev.tags.append("info-log-file-cannot-be-opened")
    rc, out, err = jasm_io.cli(args, cwd, env_extra={"PATH": path_override} if path_override is not None else None, entry=entry, stdin_text=stdin_text)
    if log_blocked:
        import shutil

        shutil.rmtree(os.path.join(cwd, "logs", "INFO"), ignore_errors=True)
        if rc != 0:
            ev.subcases = 2
            ev.tags.append("info-log-blocked=command-failed")
            ev.nontrivial = True
            return ev
    ev.subcases = 2
    reported = [m.group(1) for ln in err.split("\n") for m in [LINE.search(ln)] if m]
    found_line = "RESULT: Pattern found" in err
    notfound_line = "RESULT: Pattern not found" in err
    if api[0] == "exc":
        if rc == 0:
            ev.dev("exit-0-although-operation-failed", api_error=list(api[1:]), stderr=err[-300:])
        if found_line or reported:
            ev.dev("reported-after-error", stderr=err[-300:])
    else:
        want = api[1]
        if rc != 0:
            ev.dev("nonzero-exit-although-api-succeeds", exit=rc, api=want[:3], stderr=err[-400:])
        else:
            if found_line != bool(want) or (notfound_line == bool(want)):
                ev.dev("verdict-line", api=want[:3], found_line=found_line, notfound_line=notfound_line)
            if reported != want:
                ev.dev("matched-address-lines", api=want[:4], cli=reported[:4], counts=[len(want), len(reported)])
    ev.nontrivial = (api[0] == "ok" and len(api[1]) >= 2) or bool(macros) or kind == "failing"
    ev.sample = {"args": [a if not a.startswith("/") else os.path.basename(a) for a in args], "api": list(api[:2]) if api[0] == "exc" else ["ok", api[1][:3]], "exit": rc, "cli_reported": reported[:3]}
    return ev
