"""C14 - results depend only on the current inputs, never on earlier runs in the process."""
import itertools
import json
import multiprocessing as mp
import os
import pickle
import random
import shutil
import subprocess
import sys

from hypothesis import strategies as st

from vlib import env, jasm_io
from vlib.elfw import make_elf
from vlib.model import hexdigest
from vlib.render import render
from vlib.runner import Eval

ID = "C14"
LEVEL = "exploration"
RULE = (
    "A pool of ~100 complete compile-and-match operations is built (files written once, before anything runs) covering pairwise: each full-match flag {absent,false,true}; "
    "valid_addr_range {absent, two ranges}; sections {absent, two lists} on a generated ELF; style {absent, att, intel}; captures {0,1,3 names}; macros {none, inline, shared extra "
    "macro file whose body refers to a macro each rule defines differently}; inputs {two listings, one binary}; the 8 result modes; and failing operations (bad config type, "
    "undefined macro, missing file). Histories (sequences of 2-40 pool operations, 120 in thorough; operations and 'repeat previous' drawn by Hypothesis, shrunk as one value) "
    "are executed in one process forked from a parent that never ran JASM; each step's outcome (value or exception type) is compared with the outcome of the same operation "
    "executed first in a fresh interpreter (baselines computed once per run). All ordered pairs (a, b) of the pool are additionally run a;b (exhaustive for history "
    "length 2). Non-trivial: a step whose predecessor set a dimension that the step leaves at its default; distinct (predecessor, step) pairs are counted. A second family of "
    "generated histories rewrites the files themselves between operations (rule, listing, binary and macro-library slots at fixed paths, new contents of the same byte length, "
    "written in place within the same second) and matches them again; each match step is compared with the same operation on a private copy of the files as they are at that "
    "step, run first in a separately forked process. Non-trivial there: a file read by an earlier operation is rewritten and read again."
)
ASSUMPTIONS = ["exception outcomes are compared by exception type", "the pool is a pure function of VERIF_SEED; pool files are immutable during a run"]
FLOORS = {"has-nontrivial-step": 0.5, "form=steps": 0.3, "rewrite-then-reread": 0.15}
POOL_DIR = None
_POOL = None
_BASE = None


def budget(tier):
    return {"cases": 320 if tier == "quick" else 6000}


# ---------------------------------------------------------------------------------- the pool


def _listing_a():
    I = [
        ("401000", "push", ["%rbp"]), ("401001", "movl", ["$0x10", "%eax"]), ("401006", "call", ["401020 <f>"]), ("40100b", "lea", ["0x8(%rax)", "%rbx"]),
        ("40100f", "jmp", ["402000 <g>"]), ("401014", "pop", ["%rbp"]), ("401015", "call", ["*%rax"]), ("401017", "ret", []),
        ("401018", "push", ["%rax"]), ("401019", "pop", ["%rax"]), ("40101a", "add", ["$0x1", "%rax"]), ("40101e", "ret", []),
    ]
    return render(I)


def _listing_b():
    I = [
        ("10", "mov", ["%rsp", "%rbp"]), ("13", "call", ["20 <h>"]), ("18", "movq", ["%rax", "%rbx"]), ("1b", "push", ["%rbx"]), ("1c", "push", ["%rbx"]),
        ("1d", "cmovne", ["%rax", "%rcx"]), ("21", "jmp", ["401020 <f>"]), ("26", "lea", ["(%rax,%rbx,4)", "%rcx"]), ("2a", "call", ["ret"]), ("2f", "ret", []),
    ]
    return render(I)


def _binary():
    text = bytes.fromhex("55 48 89 e5 e8 10 00 00 00 48 8b 45 f8 5d c3".replace(" ", ""))
    hot = bytes.fromhex("50 58 48 8d 44 8b 10 e8 00 00 00 00 c3".replace(" ", ""))
    return make_elf([(".text", text, True), (".text.hot", hot, True), (".data", b"\x01\x02\x03\x04", False)], [("main", 1, 0), ("hot", 2, 0)])


def build_pool(seed, d):
    """-> list of ops; writes every file the ops need into directory d (once)."""
    rnd = random.Random(seed)
    os.makedirs(d, exist_ok=True)

    def w(name, data):
        p = os.path.join(d, name)
        with open(p, "wb" if isinstance(data, bytes) else "w") as f:
            f.write(data)
        return p

    la, lb, bn = w("a.s", _listing_a()), w("b.s", _listing_b()), w("c.o", _binary())
    lib = w("lib_macros.yaml", jasm_io.dump_yaml({"macros": [{"name": "@guarded_call", "pattern": [{"$and": ["@guard", "call"]}]}]}))
    lib2 = w("lib2_macros.yaml", jasm_io.dump_yaml({"macros": [{"name": "@anyop", "pattern": "[^,|]{1,50}"}]}))
    ops = []
    modes = list(itertools.product(("bool", "list"), ("first", "all"), (False, True)))

    def add(name, doc, inp, dims, macros=None, binary=False, mode=None, raw=None, compile_only=False):
        rp = w(f"rule_{len(ops)}.yaml", raw if raw is not None else jasm_io.dump_yaml(doc))
        m = mode or modes[len(ops) % 8]
        ops.append({"id": len(ops), "name": name, "rule": rp, "input": inp, "binary": binary, "macros": macros, "mode": list(m), "dims": dims, "compile_only": compile_only})

    flagvals = [None, False, True]
    for mn, op in itertools.product(flagvals, flagvals):
        for inp, iname in ((la, "a"), (lb, "b")):
            add(f"flags mn={mn} op={op} on {iname}", jasm_io.make_doc(["mov", {"push": ["rb"]}] if iname == "b" else [{"push": ["rb"]}, "mov"], mn, op), inp, {"mn": mn, "op": op})
    for rng in (None, {"min": "401000", "max": "401fff"}, {"min": "0x10", "max": "0x2f"}, {"min": "402000", "max": "401000"}):
        for rule in ([{"call": ["valid_addr"]}], [{"jmp": ["valid_addr"]}], [{"call": ["4"]}], [{"jmp": ["2000"]}]):
            for inp in (la, lb):
                add(f"range {rng}", jasm_io.make_doc(rule, config={"valid_addr_range": rng} if rng else None), inp, {"range": json.dumps(rng) if rng else None}, mode=("list", "all", True))
    for secs in (None, [".text"], [".text.hot"], [".text.hot", ".text"]):
        for rule in (["push", "mov"], ["lea"], ["pop", "ret"]):
            add(f"sections {secs}", jasm_io.make_doc(rule, config={"sections": secs} if secs else None), bn, {"sections": json.dumps(secs) if secs else None}, binary=True, mode=("list", "all", True))
    for style in (None, "att", "intel"):
        add(f"style {style}", jasm_io.make_doc(["push"], config={"style": style} if style else None), bn, {"style": style}, binary=True)
        add(f"style {style} asm", jasm_io.make_doc(["ret"], config={"style": style} if style else None), la, {"style": style})
    for style in ("att", "intel"):
        for secs in ([".text"], [".text.hot"]):
            add(f"style {style} + sections {secs}", jasm_io.make_doc(["push"], config={"style": style, "sections": secs}), bn, {"style": style, "sections": json.dumps(secs)}, binary=True, mode=("list", "all", True))
    # rule text written by hand: unquoted hexadecimal scalars (YAML reads them as integers)
    add("unquoted hex operand", None, la, {"yaml": "hex"}, raw="pattern:\n  - movl: [0x10]\n", mode=("list", "all", True))
    add("unquoted hex deref", None, la, {"yaml": "hex"}, raw="pattern:\n  - lea:\n    - $deref:\n        main_reg: rax\n        constant_offset: 0x8\n", mode=("list", "all", True))
    # a `config:` section that is present but empty (every option commented out: YAML null) - whatever JASM does with it, it must
    # do the same after a rule that set the option; one rule per process-wide setting
    for nm_, raw_, inp_, bin_ in (("flags", "config:\n  # operands-full-match: true\npattern:\n  - push: [rb]\n  - mov\n", la, False),
                                  ("range", "config:\npattern:\n  - call: [valid_addr]\n", la, False), ("range b", "config:\npattern:\n  - jmp: [valid_addr]\n", lb, False),
                                  ("sections", "config:\n  # sections: [.text]\npattern:\n  - push\n  - mov\n", bn, True), ("style", "config:\n  # style: intel\npattern:\n  - push\n", bn, True)):
        add(f"empty config section ({nm_})", None, inp_, {"yaml": "null-config"}, raw=raw_, binary=bin_, mode=("list", "all", True))
    add("captures 1", jasm_io.make_doc([{"push": ["&x"]}, {"pop": ["&x"]}]), la, {"captures": 1}, mode=("list", "all", False))
    add("captures 1b", jasm_io.make_doc([{"push": ["&r"]}, {"push": ["&r"]}]), lb, {"captures": 1}, mode=("list", "all", False))
    add("captures 3", jasm_io.make_doc([{"push": ["&a"]}, {"pop": ["&a"]}, {"add": ["&b", "&c"]}, "ret"]), la, {"captures": 3}, mode=("list", "all", False))
    add("captures inst", jasm_io.make_doc(["&i", "&i"]), lb, {"captures": 1}, mode=("list", "all", True))
    add("regcap", jasm_io.make_doc([{"push": ["&genreg-1"]}, {"pop": ["&genreg-1.64"]}]), la, {"captures": 1}, mode=("list", "all", True))
    add("macro inline", jasm_io.make_doc(["@m", "ret"], macros=[{"name": "@m", "pattern": [{"$or": ["pop", "add"]}]}]), la, {"macros": "inline"}, mode=("list", "all", True))
    add("macro inline 2", jasm_io.make_doc(["@m", "ret"], macros=[{"name": "@m", "pattern": [{"$or": ["call", "zz"]}]}]), lb, {"macros": "inline"}, mode=("list", "all", True))
    for guard in ("movl", "lea", "push", "zz"):
        for inp in (la, lb):
            add(f"macro lib guard={guard}", jasm_io.make_doc(["@guarded_call"], macros=[{"name": "@guard", "pattern": guard}]), inp, {"macros": "lib:" + guard}, macros=[lib], mode=("list", "all", True))
    add("macro lib2", jasm_io.make_doc([{"push": ["@anyop"]}, {"pop": ["@anyop"]}]), la, {"macros": "lib2"}, macros=[lib2], mode=("list", "all", True))
    add("macro both libs", jasm_io.make_doc(["@guarded_call", {"lea": ["@anyop"]}], macros=[{"name": "@guard", "pattern": "movl"}]), la, {"macros": "lib+lib2"}, macros=[lib, lib2], mode=("list", "all", True))
    for m in modes:
        add(f"modes {m}", jasm_io.make_doc(["push"]), lb, {}, mode=m)
        add(f"modes {m} notfound", jasm_io.make_doc(["zzzz"]), la, {}, mode=m)
    add("fail: config type", jasm_io.make_doc(["mov"], config={"mnemonics-full-match": "yes"}), la, {"fails": "config"})
    add("fail: sections type", jasm_io.make_doc(["mov"], config={"sections": "text"}), la, {"fails": "sections"})
    add("fail: undefined macro", jasm_io.make_doc(["@nope"], macros=[{"name": "@m", "pattern": "x"}]), la, {"fails": "macro"})
    add("fail: missing input", jasm_io.make_doc(["mov"]), os.path.join(d, "missing.s"), {"fails": "input"})
    add("fail: missing rule", None, la, {"fails": "rule"}, raw="pattern: [")
    add("fail: objdump on text", jasm_io.make_doc(["mov"], config={"sections": [".text"], "valid_addr_range": {"min": "10", "max": "20"}, "mnemonics-full-match": True}), la, {"fails": "binary", "mn": True, "range": "x", "sections": "x"}, binary=True)
    # operations that load a rule's config without completing a match: a compilation through the other public entry point
    # (Yaml2Regex(...).produce_regex()), and matches whose rule fails to compile AFTER its config section was read
    for cfg_name, cfg in (("range-a", {"valid_addr_range": {"min": "0x10", "max": "0x2f"}}), ("range-b", {"valid_addr_range": {"min": "401000", "max": "401fff"}}), ("no-config", None),
                          ("sections", {"sections": [".text.hot"]}), ("style-intel", {"style": "intel"}), ("flags", {"mnemonics-full-match": True, "operands-full-match": True})):
        add(f"compile only ({cfg_name})", jasm_io.make_doc([{"call": ["valid_addr"]}, "mov"], config=cfg), la, {"compile-only": cfg_name}, compile_only=True)
        add(f"fail after config ({cfg_name})", jasm_io.make_doc(["mov", "@nope"], config=cfg, macros=[{"name": "@m", "pattern": "x"}]), bn if cfg_name in ("sections", "style-intel") else la,
            {"fails": "macro-after-config:" + cfg_name}, binary=cfg_name in ("sections", "style-intel"))
    # rules that register captures and then fail to compile (late: $deref without main_reg, $not with two arguments) - what they leave
    # behind must not reach the next rule's captures
    add("fail after captures (deref)", jasm_io.make_doc([{"push": ["&x"]}, {"pop": ["&x"]}, {"lea": [{"$deref": {"constant_offset": "0x8"}}]}]), la, {"fails": "late-after-captures"}, mode=("list", "all", True))
    add("fail after captures (not)", jasm_io.make_doc([{"push": ["&a"]}, {"add": ["&b", "&c"]}, {"$not": ["pop", "ret"]}]), la, {"fails": "late-after-captures"}, mode=("list", "all", True))
    add("fail after captures (inst)", jasm_io.make_doc(["&i", "&j", {"$and": []}]), lb, {"fails": "late-after-captures"}, mode=("list", "all", True))
    # the NNh spelling of a hexadecimal operand under both settings of operands-full-match, on a listing where whole-operand and
    # substring matching differ (0x10 / 0x100)
    lh = w("h.s", render([("30", "mov", ["$0x100", "%eax"]), ("35", "mov", ["$0x10", "%ebx"]), ("3a", "add", ["$0x2a", "%eax"]), ("3d", "ret", [])]))
    for lit in ("10h", "2ah", "0x10"):
        for opf in (False, True):
            add(f"hex literal {lit} op-full={opf}", jasm_io.make_doc([{"mov" if lit != "2ah" else "add": [lit]}], None, opf), lh, {"op": opf, "hexlit": lit}, mode=("list", "all", True))
    # a listing of more than a megabyte (size-gated short cuts start somewhere): a range rule that tags one of its calls, and a plain
    # rule that asks for the literal target of the same call
    # (the lines are as long as those of a C++ program: rip-relative lea with the mangled name of its target in the comment)
    sym = "_ZN" + "".join("%d%s" % (len(n_), n_) for n_ in ("boost", "spirit", "qi", "detail", "expect_function", "iterator_range", "context", "cons", "fusion", "unused_type") * 3) + "E"
    lines = ["", "big:     file format elf64-x86-64", "", "", "Disassembly of section .text:", "", "0000000000500000 <%s>:" % sym]
    for q in range(4200):
        a_ = 0x500000 + 7 * q
        if q == 7:
            lines.append("  %x:\te8 00 00 00 00       \tcall   500100 <f>" % a_)
        elif q == 4190:
            lines.append("  %x:\te9 00 00 00 00       \tjmp    500100 <f>" % a_)
        else:
            lines.append("  %x:\t48 8d 05 f9 00 00 00 \tlea    0x%x(%%rip),%%rax        # %x <%s+0x%x>" % (a_, 0x1000 + q, a_ + 0x1007 + q, sym, q))
    lbig = w("big.s", "\n".join(lines) + "\n")
    assert os.path.getsize(lbig) > 1_100_000, os.path.getsize(lbig)
    add("big listing, range", jasm_io.make_doc([{"call": ["valid_addr"]}], config={"valid_addr_range": {"min": "500000", "max": "5fffff"}}), lbig, {"range": "big"}, mode=("list", "all", True))
    add("big listing, plain target", jasm_io.make_doc([{"call": ["500100"]}]), lbig, {"big": "plain"}, mode=("list", "all", False))
    # a listing that arrives through a pipe (objdump -d x | jasm -s /dev/stdin; here a named pipe): first with content, then - same
    # path - with nothing in it
    fifo = os.path.join(d, "piped_listing.fifo")
    add("piped listing", jasm_io.make_doc(["push", "mov"]), fifo, {"pipe": "content"}, mode=("list", "all", True))
    ops[-1]["fifo"] = _listing_b()
    add("piped listing, nothing delivered", jasm_io.make_doc(["push", "mov"]), fifo, {"pipe": "empty"}, mode=("list", "all", True))
    ops[-1]["fifo"] = ""
    add("piped listing, other content", jasm_io.make_doc(["push"]), fifo, {"pipe": "content-a"}, mode=("list", "all", True))
    ops[-1]["fifo"] = _listing_a()
    # a rule whose sections are all absent from the binary: objdump exits 1, the operation raises - in a fresh process as well
    add("sections all absent", jasm_io.make_doc(["push"], config={"sections": [".init", ".fini"]}), bn, {"fails": "sections-absent"}, binary=True, mode=("list", "all", True))
    add("sections all absent 2", jasm_io.make_doc(["pop", "ret"], config={"sections": [".nosuch"]}), bn, {"fails": "sections-absent"}, binary=True, mode=("bool", "first", False))
    rnd.shuffle(ops)
    for k, o in enumerate(ops):
        o["id"] = k
    return ops


def _feed_fifo(path, text):
    """Create the named pipe if need be and deliver `text` through it to the one reader that opens it (a pipe delivers once; the
    operation is run without the ask-the-same-instance-again variation).  -> (thread, stop event)."""
    import threading

    if not os.path.exists(path):
        try:
            os.mkfifo(path)
        except FileExistsError:
            pass
    stop = threading.Event()

    def writer():
        try:
            fd = os.open(path, os.O_WRONLY)  # waits for the reader (or for _release_fifo)
        except OSError:
            return
        try:
            if not stop.is_set():
                view = memoryview(text.encode())
                while view:
                    view = view[os.write(fd, view):]
        except OSError:
            pass
        finally:
            os.close(fd)

    t = threading.Thread(target=writer, daemon=True)
    t.start()
    return t, stop


def _release_fifo(path, t, stop):
    """After the operation: a writer nobody read from is let go, and no pipe is left in the pool directory (copying the directory
    would wait on it for ever)."""
    stop.set()
    fd = None
    if t.is_alive():
        try:
            fd = os.open(path, os.O_RDONLY | os.O_NONBLOCK)
        except OSError:
            fd = None
    t.join(5)
    if fd is not None:
        os.close(fd)
    try:
        os.unlink(path)
    except OSError:
        pass


def run_op(o):
    if o.get("fifo") is not None:
        # (the shards share the pool directory: each process has a pipe of its own, under one path for the whole of its history)
        path = "%s.%d" % (o["input"], os.getpid())
        t, stop = _feed_fifo(path, o["fifo"])
        try:
            return run_op(dict(o, fifo=None, single_read=True, input=path))
        finally:
            _release_fifo(path, t, stop)
    mode, search, only = o["mode"]
    if o.get("compile_only"):
        with open(o["rule"]) as f:
            r = jasm_io.compile_rule(f.read(), macros=o["macros"])
        return ["exc", r[1]] if r[0] == "exc" else ["inconclusive"] if r[0] == "inconclusive" else ["ok", r[1]]
    r = jasm_io.match_files(o["rule"], o["input"], mode=mode, search=search, only_addr=only, macros=o["macros"], binary=o["binary"], single_read=bool(o.get("single_read")))
    if r[0] == "exc":
        return ["exc", r[1]]
    if r[0] == "inconclusive":
        return ["inconclusive"]
    return ["ok", r[1]]


def pool_dir(seed):
    return os.path.join(env.WORK_ROOT, f"c14_pool_{seed}_{os.environ.get('VERIF_TIER', 'quick')}_{'sens' if 'VERIF_REPO' in os.environ else 'real'}")


def prepare(tier, seed):
    """Parent, before any shard: write the pool, compute baselines in fresh interpreters."""
    d = pool_dir(seed)
    shutil.rmtree(d, ignore_errors=True)
    import atexit

    parent = os.getpid()
    # removed when the parent exits (after the runner has exported any failing history together with its files)
    atexit.register(lambda: os.getpid() == parent and shutil.rmtree(d, ignore_errors=True))
    ops = build_pool(seed, d)
    with open(os.path.join(d, "pool.json"), "w") as f:
        json.dump(ops, f)
    procs = []
    base = {}
    envv = dict(os.environ, PYTHONHASHSEED="0")
    pending = list(range(len(ops)))
    running = []
    while pending or running:
        while pending and len(running) < 16:
            k = pending.pop()
            p = subprocess.Popen([sys.executable, "-m", "props.c14_histories", "--one", d, str(k)], cwd=env.VERIF, stdout=subprocess.PIPE, stderr=subprocess.DEVNULL, env=envv, text=True)
            running.append((k, p))
        k, p = running.pop(0)
        out, _ = p.communicate(timeout=300)
        base[k] = json.loads(out.strip().splitlines()[-1])
    with open(os.path.join(d, "baselines.json"), "w") as f:
        json.dump(base, f)


def _load(seed=None):
    global _POOL, _BASE
    if _POOL is None:
        d = pool_dir(env.seed_value())
        if not os.path.exists(os.path.join(d, "baselines.json")):
            prepare(os.environ.get("VERIF_TIER", "quick"), env.seed_value())
        _POOL = json.load(open(os.path.join(d, "pool.json")))
        _BASE = {int(k): v for k, v in json.load(open(os.path.join(d, "baselines.json"))).items()}
    return _POOL, _BASE


# ---------------------------------------------------------------------------------- histories


@st.composite
def histories(draw, max_len=40):
    n = len(_load()[0])
    length = draw(st.integers(2, max_len))
    h = []
    pool = _load()[0]
    disturbers = [o["id"] for o in pool if o.get("compile_only") or "fails" in o["dims"]]
    for _ in range(length):
        c = draw(st.integers(0, 11))
        if h and c in (0, 1):
            h.append(h[-1])  # repeat the previous operation
        elif h and c == 2:
            h.append(h[draw(st.integers(0, len(h) - 1))])  # ask an earlier question again
        elif c == 3 and disturbers:
            # the same operation before and after something that loads another rule's config without completing a match
            x = draw(st.integers(0, n - 1))
            h += [x, draw(st.sampled_from(disturbers)), x]
        else:
            h.append(draw(st.integers(0, n - 1)))
    return {"history": h}


def strategy(tier):
    return histories(40 if tier == "quick" else 120)


def run_history_in_child(ops):
    """Fork from this (JASM-virgin) process, run the operations in order there, return their outcomes."""
    r, w = os.pipe()
    pid = os.fork()
    if pid == 0:
        os.close(r)
        try:
            out = [run_op(o) for o in ops]
        except BaseException as exc:  # noqa: BLE001
            out = [["harness-error", repr(exc)]]
        try:
            os.write(w, pickle.dumps(out))
        finally:
            os._exit(0)
    os.close(w)
    buf = b""
    while True:
        chunk = os.read(r, 1 << 16)
        if not chunk:
            break
        buf += chunk
    os.close(r)
    os.waitpid(pid, 0)
    return pickle.loads(buf)


def nontrivial_steps(pool, h):
    keys = []
    for prev, cur in zip(h, h[1:]):
        dp, dc = pool[prev]["dims"], pool[cur]["dims"]
        if any(v is not None and dc.get(k) is None for k, v in dp.items()):
            keys.append((prev, cur))
    return keys


def _slurp(path):
    import base64

    try:
        with open(path, "rb") as f:
            return base64.b64encode(f.read()).decode()
    except OSError:
        return None  # an operation whose file is missing on purpose


def export_case(case):
    """Self-contained form of a history for replay files / the regression corpus: the operations travel with the
    contents of their files; baselines are recomputed in fresh interpreters when the file is replayed."""
    if "ops" in case and all("files" in o for o in case["ops"]):
        return case
    pool, _ = _load()
    if "ops" in case:
        pool = {o["id"]: o for o in case["ops"]}
    used = sorted(set(case["history"]))
    ops = []
    for k in used:
        o = dict(pool[k])
        o["files"] = {"rule": _slurp(o["rule"]), "input": _slurp(o["input"]), "macros": [_slurp(m) for m in (o["macros"] or [])]}
        ops.append(o)
    return {"history": list(case["history"]), "ops": ops}


def _materialise(case):
    """Write the files of a self-contained case into a private directory; -> (pool dict, baselines dict)."""
    import base64

    sc = jasm_io.scratch()
    d = os.path.join(sc.dir, "c14_replay_%d" % os.getpid())
    shutil.rmtree(d, ignore_errors=True)
    os.makedirs(d)
    pool = {}
    for o in case["ops"]:
        o = dict(o)
        f = o["files"]

        def put(name, b64, orig):
            # operations that shared a file keep sharing it (a path-keyed cache only shows then)
            p = os.path.join(d, "%s_%s" % (hexdigest(orig)[:8], os.path.basename(orig)))
            if b64 is not None and not os.path.exists(p):
                with open(p, "wb") as fh:
                    fh.write(base64.b64decode(b64))
            return p

        o["rule"] = put("rule", f["rule"], o["rule"])
        o["input"] = put("input", f["input"], o["input"])
        o["macros"] = [put(f"m{i}", b, orig) for i, (b, orig) in enumerate(zip(f["macros"], o["macros"] or []))] or None
        del o["files"]
        pool[o["id"]] = o
    ids = sorted(pool)
    with open(os.path.join(d, "pool.json"), "w") as fh:
        json.dump([pool[k] for k in ids], fh)
    base = {}
    procs = [(k, subprocess.Popen([sys.executable, "-m", "props.c14_histories", "--one", d, str(n)], cwd=env.VERIF, stdout=subprocess.PIPE,
                                  stderr=subprocess.DEVNULL, env=dict(os.environ, PYTHONHASHSEED="0"), text=True)) for n, k in enumerate(ids)]
    for k, p in procs:
        out, _ = p.communicate(timeout=300)
        base[k] = json.loads(out.strip().splitlines()[-1])
    return pool, base


def evaluate(case):
    ev = Eval()
    h = case["history"]
    if "ops" in case and all("files" in o for o in case["ops"]):  # a replay / corpus file: self-contained
        pool, base = _materialise(case)
    elif "ops" in case:  # same-run pair case (files still in the pool directory)
        pool = {o["id"]: o for o in case["ops"]}
        base = {int(k): v for k, v in case["baselines"].items()}
    else:
        pool, base = _load()
    outs = run_history_in_child([pool[k] for k in h])
    ev.subcases = len(h)
    if outs and outs[0][0] == "harness-error":
        raise RuntimeError(outs[0][1])
    for step, (k, got) in enumerate(zip(h, outs)):
        if got[0] == "inconclusive":
            ev.inconclusive += 1
            continue
        if got[0] == "exc" and got[1] == "SecondCallOnSameInstanceDiffers":
            # repeating the operation on the very same MasterOfPuppets gave another answer (also wrong in a fresh process)
            ev.dev("repeat-on-same-instance-differs", step=step, operation=pool[k]["name"])
            break
        if got != base[k]:
            ev.dev("history-dependent-result", step=step, operation=pool[k]["name"], predecessor=pool[h[step - 1]]["name"] if step else None,
                   expected_as_first_in_fresh_process=_short(base[k]), observed=_short(got), history=[pool[x]["name"] for x in h[: step + 1]][-6:])
            break
    keys = nontrivial_steps(pool, h) if "ops" not in case else []
    ev.keys = keys
    ev.nontrivial = bool(keys)
    if keys:
        ev.tags.append("has-nontrivial-step")
    if any(a == b for a, b in zip(h, h[1:])):
        ev.tags.append("has-repeat")
    if any(base[k][0] == "exc" for k in h):
        ev.tags.append("has-failing-op")
    ev.sample = {"history": [pool[k]["name"] for k in h][:12], "length": len(h)}
    return ev


def _short(v):
    s = json.dumps(v)
    return s if len(s) < 300 else s[:300] + "..."


def _pair_chunk(args):
    d, pairs = args
    pool = json.load(open(os.path.join(d, "pool.json")))
    base = {int(k): v for k, v in json.load(open(os.path.join(d, "baselines.json"))).items()}
    bad = []
    for a, b in pairs:
        outs = run_history_in_child([pool[a], pool[b]])
        if outs[0] != base[a] and outs[0][0] != "inconclusive":
            bad.append((a, a, outs[0]))
        if outs[1] != base[b] and outs[1][0] != "inconclusive":
            bad.append((a, b, outs[1]))
    return bad


def extra(tier, seed, rep):
    """All ordered pairs of the pool (exhaustive for history length 2)."""
    pool, base = _load()
    d = pool_dir(seed)
    n = len(pool)
    pairs = [(a, b) for a in range(n) for b in range(n)]
    chunks = [(d, pairs[i::64]) for i in range(64)]
    ctx = mp.get_context("fork")
    with ctx.Pool(16) as p:
        bad = [x for res in p.imap_unordered(_pair_chunk, chunks) for x in res]
    rep.evaluations += len(pairs)
    rep.subcases += 2 * len(pairs)
    for a in range(n):
        for b in range(n):
            if nontrivial_steps(pool, [a, b]):
                from vlib.model import digest

                rep.hashes.add(digest((a, b)))
    rep.exhaustive_parts.append(f"all {len(pairs)} ordered pairs of the {n}-operation pool (history length 2)")
    rep.extra["pool_size"] = n
    rep.extra["ordered_pairs_checked"] = len(pairs)
    seen = set()
    for a, b, got in bad[:5]:
        if (a, b) in seen:
            continue
        seen.add((a, b))
        case = export_case({"history": [a, b]})
        dev = {"kind": "history-dependent-result", "pair": [pool[a]["name"], pool[b]["name"]], "expected_as_first_in_fresh_process": _short(base[b]), "observed": _short(got)}
        rep.violations.append((case, dev))


if __name__ == "__main__":
    if len(sys.argv) >= 4 and sys.argv[1] == "--one":
        ops = json.load(open(os.path.join(sys.argv[2], "pool.json")))
        print(json.dumps(run_op(ops[int(sys.argv[3])])))


# ---------------------------------------------------------------------------------- generated histories with file rewrites
# A second family of histories: the files themselves change between operations.  Slots (fixed paths inside the history's
# directory) are rewritten in place - by construction with contents of the SAME byte length, within the same second - and
# then matched again.  Every content is a pure function of a few small drawn integers, so a case stays a small JSON value.
# Oracle per match step: the same operation on a private copy of the files *as they are at that step*, run first in a
# separately forked process (which, like the history's own process, descends from a process that never ran a history).

S_RULES, S_LISTINGS, S_LIBS = ["r0", "r1", "r2"], ["l0", "l1"], ["m0", "m1"]
S_SLOTS = S_RULES + S_LISTINGS + S_LIBS + ["b0"]
_PUSHPOP = ["push", "pop "]
_REGS = ["%rbp", "%rbx", "%rax", "%rcx"]
_TARGETS = ["401020", "402020", "40f020", "4010f0"]
_INNER = ["movl", "lea ", "push", "pop "]


def step_content(slot, v):
    """Content of a slot for variant v (a list of small ints).  All variants of one slot have the same length."""
    a, b, c = (list(v) + [0, 0, 0])[:3]
    if slot in S_LISTINGS:
        base = 0x401000 if slot == "l0" else 0x402000
        I = [
            (format(base, "x"), _PUSHPOP[a % 2].strip(), [_REGS[b % 4]]), (format(base + 1, "x"), "movl", ["$0x10", "%eax"]), (format(base + 6, "x"), "call", [f"{_TARGETS[c % 4]} <f>"]),
            (format(base + 11, "x"), "lea", ["0x8(%rax)", _REGS[(b + 1) % 4]]), (format(base + 15, "x"), "jmp", [f"{_TARGETS[(c + 1) % 4]} <g>"]), (format(base + 20, "x"), _PUSHPOP[(a + 1) % 2].strip(), [_REGS[b % 4]]),
            (format(base + 21, "x"), "call", ["*%rax"]), (format(base + 23, "x"), "ret", []), (format(base + 24, "x"), "push", ["%rax"]), (format(base + 25, "x"), "pop", ["%rax"]),
        ]
        return render(I)
    if slot == "b0":
        text = bytes([0x50 + (b % 4) + 8 * (a % 2), 0x48, 0x89, 0xE5, 0xE8, 0x10 + c % 4, 0, 0, 0, 0x48, 0x8B, 0x45, 0xF8, 0x58 + (b % 4), 0xC3])
        hot = bytes([0x50 + 8 * ((a + 1) % 2), 0x58, 0x48, 0x8D, 0x44, 0x8B, 0x10 + 8 * (c % 2), 0xE8, 0, 0, 0, 0, 0xC3])
        return make_elf([(".text", text, True), (".text.hot", hot, True), (".data", b"\x01\x02\x03\x04", False)], [("main", 1, 0), ("hot", 2, 0)])
    if slot in S_LIBS:
        tail = ["call", "jmp ", "ret ", "lea "][a % 4]
        nm = "@lib_" + slot
        return jasm_io.dump_yaml({"macros": [{"name": nm, "pattern": [{"$and": ["@inner_", tail]}]}, {"name": "@any_" + slot, "pattern": ["[^,|]{1,50}", "[^,|]{2,50}"][b % 2]}]})
    # rules: template a, parameters b, c
    t = a % 12
    flag = [None, False, True]
    if t == 9:
        style = [None, "att", "intel"][b % 3]
        secs = [None, [".text"], [".text.hot"], [".text.hot", ".text"]][c % 4]
        cfg = {k_: v_ for k_, v_ in (("style", style), ("sections", secs)) if v_}
        return jasm_io.dump_yaml(jasm_io.make_doc(["push"], config=cfg or None))
    if t == 10:
        if c % 4 == 3:
            # hand-written: the config section is there but empty (YAML null)
            return ["config:\n  # operands-full-match: true\npattern:\n  - pus: [rb]\n  - mov\n", "config:\npattern:\n  - call: [valid_addr]\n",
                    "config:\n  # sections: [.text]\npattern:\n  - push\n", "config:\n  # style: intel\npattern:\n  - ret\n"][b % 4]
        # hand-written rule text with unquoted hexadecimal scalars (YAML reads them as integers)
        return ["pattern:\n  - movl: [0x10]\n", "pattern:\n  - lea:\n    - $deref:\n        main_reg: rax\n        constant_offset: 0x8\n", "pattern:\n  - call: [0x401020]\n"][b % 3]
    if t == 11:
        rng = [{"min": "402000", "max": "401000"}, {"min": "0x40ffff", "max": "0x401000"}, {"min": "401020", "max": "401020"}][b % 3]
        return jasm_io.dump_yaml(jasm_io.make_doc([{"call": [["valid_addr", "4010", "40"][c % 3]]}], config={"valid_addr_range": rng}))
    if t == 0:
        return jasm_io.dump_yaml(jasm_io.make_doc([{"pus": ["rb"]}, "mov"], flag[b % 3], flag[c % 3]))
    if t == 1:
        rng = [None, {"min": "401000", "max": "401fff"}, {"min": "0x402000", "max": "0x40ffff"}][b % 3]
        return jasm_io.dump_yaml(jasm_io.make_doc([{["call", "jmp"][c % 2]: ["valid_addr"]}], config={"valid_addr_range": rng} if rng else None))
    if t == 2:
        secs = [None, [".text"], [".text.hot"], [".text.hot", ".text"]][b % 4]
        return jasm_io.dump_yaml(jasm_io.make_doc([["push", "pop", "lea"][c % 3]], config={"sections": secs} if secs else None))
    if t == 3:
        return jasm_io.dump_yaml(jasm_io.make_doc([{"push": ["&r"]}, {"pop": ["&r"]}] if b % 2 else [{"p": ["&x"]}, "mov", {"call": ["&y"]}]))
    if t == 4:
        lib = S_LIBS[b % 2]
        return jasm_io.dump_yaml(jasm_io.make_doc(["@lib_" + lib], macros=[{"name": "@inner_", "pattern": _INNER[c % 4].strip()}]))
    if t == 5:
        style = [None, "att", "intel"][b % 3]
        return jasm_io.dump_yaml(jasm_io.make_doc([["ret", "call", "mov"][c % 3]], config={"style": style} if style else None))
    if t == 6:
        return jasm_io.dump_yaml(jasm_io.make_doc(["mov"], config={"mnemonics-full-match": "yes"} if b % 2 else {"sections": "text"}))
    if t == 7:
        lib = S_LIBS[b % 2]
        return jasm_io.dump_yaml(jasm_io.make_doc([{"push": ["@any_" + lib]}, "mov"], macros=[{"name": "@unused_", "pattern": "x"}]))
    return jasm_io.dump_yaml(jasm_io.make_doc([{"call": [_TARGETS[b % 4][:4]]}] if c % 2 else [{"jmp": [_TARGETS[b % 4][-3:]]}]))


@st.composite
def step_histories(draw, max_len=24):
    v3 = st.lists(st.integers(0, 11), min_size=3, max_size=3)
    init = {s: draw(v3) for s in S_SLOTS}
    steps = []
    for _ in range(draw(st.integers(3, max_len))):
        k = draw(st.integers(0, 9))
        if k <= 2:
            s = draw(st.sampled_from(S_SLOTS))
            steps.append({"op": "write", "slot": s, "v": draw(v3), "keep_mtime": draw(st.booleans())})
        elif k == 3 and any(x["op"] == "match" for x in steps):
            steps.append(dict([x for x in steps if x["op"] == "match"][-1]))  # ask the previous question again
        else:
            binary = draw(st.integers(0, 3)) == 0
            steps.append({"op": "match", "rule": draw(st.sampled_from(S_RULES)), "input": "b0" if binary else draw(st.sampled_from(S_LISTINGS)),
                          "libs": draw(st.sampled_from([[], ["m0"], ["m1"], ["m0", "m1"], ["m1", "m0"]])),
                          "mode": [draw(st.sampled_from(["bool", "list"])), draw(st.sampled_from(["first", "all"])), draw(st.booleans())]})
    if not any(x["op"] == "match" for x in steps):
        steps.append({"op": "match", "rule": "r0", "input": "l0", "libs": [], "mode": ["list", "all", True]})
    return {"form": "steps", "init": init, "steps": steps}


def _slot_path(d, slot):
    return os.path.join(d, slot + (".yaml" if slot[0] in "rm" else ".o" if slot == "b0" else ".s"))


def _write_slot(d, slot, v, keep_mtime=False):
    """keep_mtime: the file is replaced in place and gets its old timestamps back (cp -p, rsync -t, a patcher that restores them):
    same path, same size, same mtime down to the nanosecond - only the content tells."""
    data = step_content(slot, v)
    p = _slot_path(d, slot)
    old = os.stat(p) if keep_mtime and os.path.exists(p) else None
    with open(p, "wb" if isinstance(data, bytes) else "w") as f:
        f.write(data)
    if old is not None:
        os.utime(p, ns=(old.st_atime_ns, old.st_mtime_ns))


def _run_step_match(d, stp):
    return run_op({"rule": _slot_path(d, stp["rule"]), "input": _slot_path(d, stp["input"]), "binary": stp["input"] == "b0",
                   "macros": [_slot_path(d, m) for m in stp["libs"]] or None, "mode": stp["mode"]})


def _forked(fn):
    r, w = os.pipe()
    pid = os.fork()
    if pid == 0:
        os.close(r)
        try:
            out = fn()
        except BaseException as exc:  # noqa: BLE001
            out = ["harness-error", repr(exc)]
        try:
            os.write(w, pickle.dumps(out))
        finally:
            os._exit(0)
    os.close(w)
    buf = b""
    while True:
        chunk = os.read(r, 1 << 16)
        if not chunk:
            break
        buf += chunk
    os.close(r)
    os.waitpid(pid, 0)
    return pickle.loads(buf)


def eval_steps(case):
    ev = Eval()
    sc = jasm_io.scratch()
    root = os.path.join(sc.dir, "c14_steps_%d" % os.getpid())
    shutil.rmtree(root, ignore_errors=True)
    hist = os.path.join(root, "hist")
    os.makedirs(hist)
    state = dict(case["init"])
    steps = case["steps"]
    # baselines: per match step, a private directory with the files as they are at that step, matched in its own process
    base = {}
    for k, stp in enumerate(steps):
        if stp["op"] == "write":
            state[stp["slot"]] = stp["v"]
            continue
        d = os.path.join(root, f"base_{k}")
        os.makedirs(d)
        for s, v in state.items():
            _write_slot(d, s, v)
        base[k] = _forked(lambda d=d, stp=stp: _run_step_match(d, stp))

    def run_history():
        for s, v in case["init"].items():
            _write_slot(hist, s, v)
        outs = {}
        for k, stp in enumerate(steps):
            if stp["op"] == "write":
                _write_slot(hist, stp["slot"], stp["v"], keep_mtime=bool(stp.get("keep_mtime")))  # in place: same path, same length, (almost always) the same second
            else:
                outs[k] = _run_step_match(hist, stp)
        return outs

    outs = _forked(run_history)
    shutil.rmtree(root, ignore_errors=True)
    if isinstance(outs, list) and outs and outs[0] == "harness-error":
        raise RuntimeError(outs[1])
    nmatch = 0
    rewritten = set()
    used = set()
    nontrivial = False
    for k, stp in enumerate(steps):
        if stp["op"] == "write":
            rewritten.add(stp["slot"])
            continue
        nmatch += 1
        files = {stp["rule"], stp["input"], *stp["libs"]}
        if files & rewritten & used:
            nontrivial = True  # a file that an earlier operation read has been rewritten since and is read again
        used |= files
        got, want = outs.get(k), base[k]
        if isinstance(want, list) and want and want[0] == "harness-error":
            raise RuntimeError(want[1])
        if "inconclusive" in (got[0], want[0]):
            ev.inconclusive += 1
            continue
        if got[0] == "exc" and got[1] == "SecondCallOnSameInstanceDiffers":
            ev.dev("repeat-on-same-instance-differs", step=k, operation=stp)
            break
        if got != want:
            ev.dev("history-dependent-result", step=k, operation=stp, expected_as_first_in_fresh_process=_short(want), observed=_short(got),
                   history=[x if x["op"] == "write" else {"op": "match", "rule": x["rule"], "input": x["input"]} for x in steps[:k]][-6:])
            break
    ev.subcases = nmatch
    ev.tags = ["form=steps"] + (["rewrite-then-reread"] if nontrivial else []) + (["has-nontrivial-step"] if nontrivial else [])
    ev.nontrivial = nontrivial
    ev.sample = {"steps": steps[:10], "length": len(steps)}
    return ev


_pool_strategy = strategy
_pool_evaluate = evaluate
_pool_export = export_case


def strategy(tier):  # noqa: F811
    return st.one_of(_pool_strategy(tier), step_histories(24 if tier == "quick" else 60))


def evaluate(case):  # noqa: F811
    if case.get("form") == "steps":
        return eval_steps(case)
    return _pool_evaluate(case)


def export_case(case):  # noqa: F811
    return case if case.get("form") == "steps" else _pool_export(case)


# ---------------------------------------------------------------------------------- the same histories as a state machine
# hypothesis.stateful drives the rewrite histories step by step: the model is the variant currently stored in every slot plus
# the set of slots some earlier operation has read; preconditions steer towards rewriting a file that was read and asking
# again.  Every example runs its operations in a worker process of its own (forked when the machine is created, fed through
# pipes), the baseline of a match step is computed in yet another process on a private copy of the model's files.  The steps
# are recorded in the case format of eval_steps, so a failing history is an ordinary replay file.


class _Worker:
    """A child process that executes write / match commands in order (one per machine instance = per example)."""

    def __init__(self, directory):
        self.dir = directory
        c2p_r, c2p_w = os.pipe()
        p2c_r, p2c_w = os.pipe()
        self.pid = os.fork()
        if self.pid == 0:
            os.close(c2p_r)
            os.close(p2c_w)
            inp, out = os.fdopen(p2c_r, "rb"), os.fdopen(c2p_w, "wb")
            try:
                while True:
                    try:
                        cmd = pickle.load(inp)
                    except EOFError:
                        break
                    if cmd[0] == "write":
                        _write_slot(self.dir, cmd[1], cmd[2], keep_mtime=bool(cmd[3]) if len(cmd) > 3 else False)
                        res = "written"
                    else:
                        try:
                            res = _run_step_match(self.dir, cmd[1])
                        except BaseException as exc:  # noqa: BLE001
                            res = ["harness-error", repr(exc)]
                    pickle.dump(res, out)
                    out.flush()
            finally:
                os._exit(0)
        os.close(p2c_r)
        os.close(c2p_w)
        self.out, self.inp = os.fdopen(p2c_w, "wb"), os.fdopen(c2p_r, "rb")

    def call(self, *cmd):
        pickle.dump(cmd, self.out)
        self.out.flush()
        return pickle.load(self.inp)

    def close(self):
        try:
            self.out.close()
            self.inp.close()
        finally:
            try:
                os.waitpid(self.pid, 0)
            except ChildProcessError:
                pass


class HistoryFailure(AssertionError):
    def __init__(self, case, deviation):
        super().__init__(deviation.get("kind"))
        self.case, self.deviation = case, deviation


def make_machine():
    from hypothesis.stateful import RuleBasedStateMachine, initialize, precondition, rule

    v3 = st.lists(st.integers(0, 11), min_size=3, max_size=3)
    mode_st = st.tuples(st.sampled_from(["bool", "list"]), st.sampled_from(["first", "all"]), st.booleans())
    libs_st = st.sampled_from([[], ["m0"], ["m1"], ["m0", "m1"], ["m1", "m0"]])

    class RewriteHistories(RuleBasedStateMachine):
        stats = {"examples": 0, "steps": 0, "matches": 0, "reread_after_rewrite": 0}

        def __init__(self):
            super().__init__()
            sc = jasm_io.scratch()
            RewriteHistories.stats["examples"] += 1
            self.root = os.path.join(sc.dir, "c14_machine_%d_%d" % (os.getpid(), RewriteHistories.stats["examples"]))
            shutil.rmtree(self.root, ignore_errors=True)
            os.makedirs(os.path.join(self.root, "hist"))
            self.worker = _Worker(os.path.join(self.root, "hist"))
            self.model = {}      # slot -> variant now on disk
            self.init = {}
            self.steps = []
            self.read = set()    # slots some earlier operation has read
            self.stale = set()   # ... and that have been rewritten since
            self.last = None
            self.nbase = 0

        @initialize(variants=st.lists(v3, min_size=len(S_SLOTS), max_size=len(S_SLOTS)))
        def write_everything(self, variants):
            for s_, v in zip(S_SLOTS, variants):
                self.model[s_] = list(v)
                self.init[s_] = list(v)
                self.worker.call("write", s_, list(v))

        def _write(self, slot, v):
            self.model[slot] = list(v)
            keep = sum(v) % 2 == 1  # half of the rewrites put the old timestamps back
            self.steps.append({"op": "write", "slot": slot, "v": list(v), "keep_mtime": keep})
            self.worker.call("write", slot, list(v), keep)
            if slot in self.read:
                self.stale.add(slot)
            RewriteHistories.stats["steps"] += 1

        @rule(slot=st.sampled_from(S_SLOTS), v=v3)
        def rewrite_any(self, slot, v):
            self._write(slot, v)

        @precondition(lambda self: bool(self.read))
        @rule(data=st.data(), v=v3)
        def rewrite_a_file_that_was_read(self, data, v):
            self._write(data.draw(st.sampled_from(sorted(self.read))), v)

        def _match(self, stp):
            self.steps.append(dict(stp))
            k = len(self.steps) - 1
            RewriteHistories.stats["steps"] += 1
            RewriteHistories.stats["matches"] += 1
            files = {stp["rule"], stp["input"], *stp["libs"]}
            if files & self.stale:
                RewriteHistories.stats["reread_after_rewrite"] += 1
            got = self.worker.call("match", stp)
            d = os.path.join(self.root, "base_%d" % self.nbase)
            self.nbase += 1
            os.makedirs(d)
            for s_, v in self.model.items():
                _write_slot(d, s_, v)
            want = _forked(lambda: _run_step_match(d, stp))
            shutil.rmtree(d, ignore_errors=True)
            self.read |= files
            self.stale -= files
            self.last = stp
            for r_ in (got, want):
                if isinstance(r_, list) and r_ and r_[0] == "harness-error":
                    raise RuntimeError(r_[1])
            if "inconclusive" in (got[0], want[0]):
                return
            case = {"form": "steps", "init": dict(self.init), "steps": list(self.steps)}
            if got[0] == "exc" and got[1] == "SecondCallOnSameInstanceDiffers":
                raise HistoryFailure(case, {"kind": "repeat-on-same-instance-differs", "step": k, "operation": stp, "found_by": "state machine"})
            if got != want:
                raise HistoryFailure(case, {"kind": "history-dependent-result", "step": k, "operation": stp, "expected_as_first_in_fresh_process": _short(want),
                                            "observed": _short(got), "found_by": "state machine"})

        @rule(rule_slot=st.sampled_from(S_RULES), inp=st.sampled_from(S_LISTINGS + ["b0"]), libs=libs_st, mode=mode_st)
        def match(self, rule_slot, inp, libs, mode):
            self._match({"op": "match", "rule": rule_slot, "input": inp, "libs": list(libs), "mode": list(mode)})

        @precondition(lambda self: bool(self.stale) and self.last is not None)
        @rule(mode=mode_st)
        def ask_again_about_a_rewritten_file(self, mode):
            # the previous question once more, now that one of its files has other contents
            stp = dict(self.last, mode=list(mode))
            if not ({stp["rule"], stp["input"], *stp["libs"]} & self.stale):
                slot = sorted(self.stale)[0]
                if slot in S_RULES:
                    stp["rule"] = slot
                elif slot in S_LIBS:
                    stp["libs"] = [slot]
                else:
                    stp["input"] = slot
            self._match(stp)

        def teardown(self):
            self.worker.close()
            shutil.rmtree(self.root, ignore_errors=True)

    return RewriteHistories


def _machine_shard(args):
    """One shard of the state-machine campaign, in a process of its own."""
    tier, seed, shard, examples, steps = args
    import hypothesis
    from hypothesis import HealthCheck, Phase, settings
    from hypothesis.stateful import run_state_machine_as_test

    Machine = make_machine()
    out = {"violation": None, "error": None}
    try:
        run_state_machine_as_test(
            hypothesis.seed(seed * 1000003 + shard * 7919 + 41)(Machine),
            settings=settings(max_examples=examples, stateful_step_count=steps, database=None, deadline=None, derandomize=False, report_multiple_bugs=False,
                              print_blob=False, suppress_health_check=list(HealthCheck), phases=[Phase.generate, Phase.shrink]),
        )
    except HistoryFailure as f:
        out["violation"] = {"case": f.case, "deviation": f.deviation}
    except BaseException as exc:  # noqa: BLE001
        import traceback

        chain = exc
        while chain is not None and not isinstance(chain, HistoryFailure):
            chain = chain.__cause__ or chain.__context__
        if isinstance(chain, HistoryFailure):
            out["violation"] = {"case": chain.case, "deviation": chain.deviation}
        else:
            out["error"] = "".join(traceback.format_exception(type(exc), exc, exc.__traceback__))[-3000:]
    out["stats"] = dict(Machine.stats)
    return out


_pool_extra = extra


def extra(tier, seed, rep):  # noqa: F811
    _pool_extra(tier, seed, rep)
    examples, steps = (6, 30) if tier == "quick" else (120, 60)
    with mp.get_context("fork").Pool(16, maxtasksperchild=1) as pool:
        results = pool.map(_machine_shard, [(tier, seed, k, examples, steps) for k in range(16)], chunksize=1)
    tot = {"examples": 0, "steps": 0, "matches": 0, "reread_after_rewrite": 0}
    for r_ in results:
        for k_ in tot:
            tot[k_] += r_["stats"].get(k_, 0)
        if r_["violation"]:
            rep.violations.append((r_["violation"]["case"], r_["violation"]["deviation"]))
        if r_["error"]:
            rep.errors.append("state machine shard: " + r_["error"])
    rep.evaluations += tot["examples"]
    rep.subcases += tot["matches"]
    rep.extra["state_machine"] = dict(tot, engine="hypothesis.stateful RuleBasedStateMachine, 16 shards", max_steps=steps)
