"""C10 - the matcher's text stream is an unambiguous encoding of the instruction list."""
from hypothesis import strategies as st

from vlib import jasm_io
from vlib.gen_listing import att_view, listings
from vlib.objsrc import ALL_LAYOUTS, LAYOUT_ASSUMPTION, LAYOUT_RULE, layout_tag, listing_for, source_tag, sources
from vlib.refnorm import decode_stream, instruction_lines, line_operand_count
from vlib.render import render
from vlib.runner import Eval

from jasm.global_definitions import Instruction
from jasm.stringify_asm.implementations.gnu_objdump.asm_manual_parser_w_regex import parse_file_lines

ID = "C10"
LEVEL = "exploration"
RULE = (
    "Inputs: real objdump output for generated code bytes / objects (as C08) and synthetic listings rendered from generated instruction lists. Oracle: "
    "round trip - decoding the stream by its separators ('|' records, '::' after the address, ',' fields, empty last field) must give exactly the parser's "
    "own instruction list (parse_file_lines without 'empty' records; an operand-less instruction is one empty operand field), and no address, mnemonic or operand "
    "may contain '|', ',' or '::'; the number of operand fields of a record equals the number of operands on the line as objdump printed it (its operand text split at "
    "commas outside parentheses; lines that start with a prefix word are left to the open finding F15). Injectivity follows from the round trip. Non-trivial: listing has >= 1 operand-less, >= 1 multi-operand and >= 1 memory-operand "
    "instruction; distinct by hash of the stream."
)
RULE += " Real objdump output is taken " + LAYOUT_RULE + "."
ASSUMPTIONS = ["the parser's own Instruction list is the 'instruction list' the statement talks about", "objdump 2.40 as input source", LAYOUT_ASSUMPTION]
FLOORS = {"nontrivial-mix": 0.3}


def budget(tier):
    return {"cases": 5000 if tier == "quick" else 100000}


@st.composite
def cases(draw):
    if draw(st.integers(0, 4)) == 0:
        return {"src": "synthetic", "listing": draw(listings(min_len=1, max_len=20))}
    return draw(sources(layouts=ALL_LAYOUTS))


def strategy(tier):
    return cases()


def evaluate(case):
    if "sectioned" in case:
        return eval_sectioned(case)
    if "exact_length" in case:
        from vlib import longlist

        ev = Eval()
        dev = longlist.exact_length_case(case["exact_length"])
        if dev and not dev.get("inconclusive"):
            ev.deviations.append(dev)
        ev.nontrivial = True
        return ev
    return _evaluate(case)


def extra(tier, seed, rep):
    """Long synthetic listings whose length sits on / next to every plausible chunk size: the stream must still be exactly the
    concatenation of one record per instruction line (a fold or flush at k*4096 or 65536 instructions would show here)."""
    from vlib import longlist

    longlist.run_exact_lengths(rep, Eval)
    for k in range(len(SECTIONED)):
        rep.add_eval({"sectioned": k}, eval_sectioned({"sectioned": k}))
    rep.exhaustive_parts.append(f"{len(SECTIONED)} long listings of several sections (a small one, more than a thousand instructions, a last one), the stream asked for with rules that occur early / late / never, in both search modes")


# (instructions per section, the rule whose answer travels with the stream)
SECTIONED = [((30, 1500, 40), "push"), ((30, 1500, 40), "hlt"), ((1200, 1100, 5), "push"), ((5, 2500, 1200, 3), "mov"), ((30, 1500, 40), "zzzzzzzz")]


def eval_sectioned(case):
    """The stream is the encoding of the whole instruction list whichever rule is being matched and however the search is asked to
    stop: a listing with `Disassembly of section` headers after more than a thousand instructions, rules that occur in the first
    section / only in the last / nowhere, first-match and all-matches."""
    from vlib.model import stream_text
    from vlib.render import HEADER, inst_line

    ev = Eval()
    sizes, rule = SECTIONED[case["sectioned"]]
    lines = list(HEADER[:3])
    NV = []
    addr = 0x401000
    for si, n in enumerate(sizes):
        lines += ["", f"Disassembly of section {['.init', '.text', '.fini', '.text.late'][si % 4]}:", "", f"{addr:016x} <sec{si}>:"]
        for q in range(n):
            last = si == len(sizes) - 1 and q == n - 1
            m, ops = ("hlt", []) if last else ("push", ["%rbp"]) if q == 0 and si == 0 else ("mov", ["%rax", "%rbx"]) if q % 89 == 7 else ("nop", [])
            lines.append(inst_line(format(addr, "x"), m, ops))
            NV.append((format(addr, "x"), m, ops))
            addr += 1 + q % 3
    text = "\n".join(lines) + "\n"
    want = stream_text(NV)
    doc = jasm_io.make_doc([rule])
    ev.subcases = 0
    for search in ("first", "all"):
        r = jasm_io.match(doc, text, mode="str", search=search)
        ev.subcases += 1
        if r[0] == "inconclusive":
            ev.inconclusive += 1
        elif r[0] != "ok":
            ev.dev("exception", sectioned=case["sectioned"], search=search, error=list(r[1:]))
        elif r[1] != want:
            ev.dev("sectioned-listing-stream-differs", sectioned=case["sectioned"], rule=rule, search=search, expected_records=len(NV), observed_records=r[1].count("|"))
    ev.tags = ["sectioned-long-listing"]
    ev.nontrivial = True
    ev.keys = [("sectioned", case["sectioned"])]
    return ev


def _evaluate(case):
    ev = Eval()
    if case["src"] == "synthetic":
        text = render(att_view(case["listing"]))
        ev.tags = ["synthetic"]
    else:
        rc, text, _ = listing_for(case)
        ev.tags = [source_tag(case), layout_tag(case)]
        if rc != 0:
            ev.tags.append("objdump-failed")
            return ev
    r = jasm_io.stream_of(text)
    if r[0] == "inconclusive":
        ev.inconclusive += 1
        return ev
    if r[0] == "exc":
        ev.dev("parser-exception", error=list(r[1:]))
        return ev
    stream = r[1]
    try:
        parsed = [e for e in parse_file_lines(text.split("\n")) if isinstance(e, Instruction) and e.mnemonic != "empty"]
    except (Exception, AssertionError) as exc:  # noqa: BLE001
        ev.dev("parse_file_lines-exception", error=[type(exc).__name__, str(exc)[:200]])
        return ev
    want = [(i.addr, i.mnemonic, list(i.operands) if i.operands else [""]) for i in parsed]
    for a, m, ops in want:
        for fld, what in [(a, "address"), (m, "mnemonic")] + [(o, "operand") for o in ops]:
            if "|" in fld or "," in fld or "::" in fld:
                ev.dev("separator-inside-field", field=what, value=fld, instruction=[a, m, ops])
                break
        else:
            continue
        break
    got = decode_stream(stream)
    if got is None:
        ev.dev("stream-malformed", tail=stream[-120:])
    elif got != want:
        k = next((q for q, (x, y) in enumerate(zip(got, want)) if x != y), min(len(got), len(want)))
        ev.dev("round-trip-differs", index=k, decoded=got[k] if k < len(got) else None, parsed=want[k] if k < len(want) else None, lens=[len(got), len(want)])
    if not ev.deviations and got is not None:
        # `,` only in separator roles: a comma that belongs inside an operand - (%rax,%rbx,1) - must not come out as a field
        # separator.  Independent count: the operand text of the line as objdump printed it, split at commas outside parentheses.
        # Lines that start with a prefix word are left out (open finding F15 decides what their operands are).
        lines = instruction_lines(text)
        if len(lines) == len(got):
            for (addr, t), (a, m, ops) in zip(lines, got):
                n_line = line_operand_count(t)
                if n_line is None:
                    continue
                n_stream = 0 if ops == [""] else len(ops)
                if n_line != n_stream:
                    ev.dev("operand-count", line=t, operands_in_line=n_line, fields_in_stream=list(ops), address=addr)
                    break
    if not ev.deviations:
        # with the address-range observer installed the stream must stay a well-formed encoding of the same instructions
        # (only operands of direct call/jmp may be replaced by the tag)
        r2 = jasm_io.stream_of(text, config={"valid_addr_range": {"min": "0x1000", "max": "0x2000"}})
        if r2[0] == "exc":
            ev.dev("parser-exception", with_config="valid_addr_range", error=list(r2[1:]))
        elif r2[0] == "ok":
            got2 = decode_stream(r2[1])
            if got2 is None or [(a, m) for a, m, _ in got2] != [(a, m) for a, m, _ in want]:
                ev.dev("round-trip-differs", with_config="valid_addr_range", lens=[len(got2) if got2 else None, len(want)])
            else:
                for (a, m, o2), (_, _, o1) in zip(got2, want):
                    if o2 != o1 and o2 != ["valid_addr"]:
                        ev.dev("operands-changed-by-observer", instruction=[a, m, o1], observed=o2)
                        break
    if not ev.deviations:
        # a `style` entry in the rule concerns binaries (it selects objdump's syntax); for a listing that is given as text it must not
        # change how the lines are read
        sty = ["intel", "att"][len(stream) % 2]
        r3 = jasm_io.stream_of(text, config={"style": sty})
        if r3[0] == "exc":
            ev.dev("parser-exception", with_config="style: " + sty, error=list(r3[1:]))
        elif r3[0] == "ok" and r3[1] != stream:
            got3 = decode_stream(r3[1])
            k3 = next((q for q, (x, y) in enumerate(zip(got3 or [], got or [])) if x != y), None)
            ev.dev("stream-differs-with-style-in-config", style=sty, first_difference=[got3[k3] if got3 and k3 is not None else None, got[k3] if got and k3 is not None else None])
    mix = any(ops == [""] for _, _, ops in want) and any(len(ops) >= 2 for _, _, ops in want) and any(o.startswith("[") for _, _, ops in want for o in ops)
    if mix:
        ev.tags.append("nontrivial-mix")
    ev.nontrivial = mix
    ev.keys = [stream]
    ev.sample = {"source": ev.tags[0], "instructions": len(want), "stream_head": stream[:300]}
    return ev
