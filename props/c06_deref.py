"""C06 - `$deref` matches exactly the memory operand objdump prints as k(a,b,c)."""
import copy
from hypothesis import assume, strategies as st

from vlib import jasm_io, x86enc
from vlib.elfw import disassemble_blob
from vlib.matcheval import compare
from vlib.refnorm import classify_line, normal_form, split_operands
from vlib.render import HEADER, inst_line
from vlib.runner import Eval

ID = "C06"
LEVEL = "exploration"
CGF_RUNS = {"thorough": 3000}  # coverage-guided stage (vlib/cgf.py): libFuzzer executions per worker, 16 workers
RULE = (
    "A rule `<mnemonic>: [..., $deref {fields}]` (deref at operand position 1 or 2; the instruction is mov, lea, add, cmp or a scalar SSE instruction - sqrtss, comiss, "
    "cvtsd2ss ... - with an xmm register as the other operand) for drawn reference components (base: 16 GPRs at 64/32 bit or %rip; index; scale 1/2/4/8; "
    "displacement zero/small/large/negative) with each of the 8 present/absent combinations of register_multiplier / constant_multiplier / constant_offset and drawn "
    "spellings (with/without %, with/without 0x, YAML int vs string) is matched in all-matches mode against a listing of 8-28 candidate instructions, each a one-step "
    "perturbation of the reference (same; base/index/scale/displacement changed, incl. prefix/extension displacements; a component added or removed; base and index swapped; a "
    "register; an immediate; the memory operand at the other position). Two routes: rendered AT&T text, and real objdump output for ModRM/SIB encodings. Oracle: "
    "component-wise equality of the operand's normal form (reference normaliser on the AT&T text) with the rule's fields (reference matcher). Non-trivial: a candidate of the "
    "same shape that is equal or differs in exactly one component; distinct by (fields, candidate operand)."
)
ASSUMPTIONS = [
    "constant_multiplier without register_multiplier has no operand with the same present components: it must match nothing (rejecting the rule is accepted)",
    "segment-prefixed and *-operands are outside the statement",
]
FLOORS = {"mnemonic=ends-in-ss": 0.1, "form=addr16": 0.06, "route=real": 0.3, "route=rendered": 0.3, "cand=same": 0.45, "cand=disp-changed": 0.3, "cand=base-changed": 0.3, "cand=scale-changed": 0.1, "cand=index-changed": 0.1, "cand=segment-prefixed": 0.2}
REGS = list(range(16))


def budget(tier):
    return {"cases": 4000 if tier == "quick" else 60000}


@st.composite
def cases(draw):
    route = draw(st.sampled_from(["rendered", "real"]))
    addr32 = draw(st.integers(0, 4)) == 0
    rip = draw(st.integers(0, 9)) == 0
    base = draw(st.sampled_from(REGS))
    index = draw(st.sampled_from([r for r in REGS if r != 4]))
    scale = draw(st.sampled_from([1, 2, 4, 8]))
    disp = draw(st.sampled_from([0, 1, 8, 0x10, 0x18, 0x1a, 0x7f, 0x80, 0x100, 0x12345, -8, -0x10, -0x80, -0x81, 0x7fffffff, -0x80000000]))
    has_b = draw(st.booleans()) and not rip
    has_c = has_b if draw(st.integers(0, 5)) else (not has_b and not rip and draw(st.booleans()))
    # (a rip-relative operand is always printed with its displacement; a rule that names the base alone - {main_reg: rip} - describes an
    # operand with fewer components and matches none of them: one rip case in three)
    has_k = draw(st.booleans()) or (rip and draw(st.integers(0, 2)) > 0)
    if has_b and (base & 7) == 5 and not has_k:
        has_k = True  # objdump always prints a displacement with %rbp/%r13 as base
    if not has_b and not rip and (base & 7) == 5:
        has_k = True
    regs = x86enc.REG32 if addr32 else x86enc.REG64

    def spell_reg(r):
        return ("%" if draw(st.booleans()) else "") + r

    def spell_const(v, hexed=True):
        if isinstance(v, int) and not hexed:
            return v if draw(st.booleans()) else str(v)
        s = x86enc.hexs(v)
        if v >= 0 and draw(st.booleans()):
            s = s[2:]
            if s.isdigit() and (s == "0" or s[0] != "0") and draw(st.booleans()):
                return int(s)
        elif v < 0 and draw(st.booleans()):
            # "constants optionally without 0x" holds for negative displacements too: -8 for -0x8
            s = "-" + s[3:]
            if s[1:].isdigit() and s[1] != "0" and draw(st.booleans()):
                return int(s)
        return s

    fields = {"main_reg": spell_reg("rip" if rip else regs[base])}
    if has_b:
        fields["register_multiplier"] = spell_reg(regs[index])
    if has_c:
        fields["constant_multiplier"] = spell_const(scale, hexed=False)
    if has_k:
        assume(not (disp == 0 and draw(st.integers(0, 3)) == 0 and False))
        fields["constant_offset"] = spell_const(disp)
    pos = draw(st.integers(1, 2))
    # ---- candidates: (kind, base, index, scale, disp, rip, mem position)
    ref = dict(base=None if rip else base, index=index if has_b else None, scale=scale if has_b else 1, disp=disp if has_k else 0, rip=rip)
    cands = []
    for _ in range(draw(st.integers(8, 28))):
        kind = draw(st.sampled_from(["same", "same", "base-changed", "index-changed", "scale-changed", "disp-changed", "disp-changed", "disp-dropped", "disp-added",
                                     "index-dropped", "index-added", "swapped", "register", "immediate", "other-position", "base-dropped", "riz-index", "segment-prefixed"]))
        c = dict(ref)
        c["pos"] = pos
        if kind == "base-changed" and not rip:
            c["base"] = draw(st.sampled_from([r for r in REGS if r != base]))
        elif kind == "index-changed" and c["index"] is not None:
            c["index"] = draw(st.sampled_from([r for r in REGS if r not in (4, c["index"])]))
        elif kind == "scale-changed" and c["index"] is not None:
            c["scale"] = draw(st.sampled_from([s for s in (1, 2, 4, 8) if s != c["scale"]]))
        elif kind == "disp-changed":
            d = c["disp"]
            c["disp"] = draw(st.sampled_from([d * 16, d * 16 + 1, d // 16, d + 1, d - 1, -d if d else 8, d ^ 0x10, d + 0x100]))
            c["disp"] = max(-2**31, min(2**31 - 1, c["disp"]))
        elif kind == "disp-dropped":
            c["disp"] = 0
        elif kind == "disp-added":
            c["disp"] = draw(st.sampled_from([8, 0x10, -8, 0x100]))
        elif kind == "index-dropped":
            c["index"] = None
        elif kind == "index-added" and not rip:
            c["index"] = draw(st.sampled_from([r for r in REGS if r != 4]))
            c["scale"] = draw(st.sampled_from([1, 2, 4, 8]))
        elif kind == "swapped" and c["index"] is not None and c["base"] is not None and c["base"] != 4:
            c["base"], c["index"] = c["index"], c["base"]
        elif kind == "base-dropped" and c["index"] is not None and not rip:
            c["base"] = None
        elif kind == "riz-index" and not rip and c["base"] is not None and (c["base"] & 7) != 4:
            # the rule's operand without index, encoded with a SIB byte all the same: objdump prints the pseudo index %riz / %eiz
            c["index"] = None
            c["riz"] = True
            c["scale"] = draw(st.sampled_from([1, 2, 4, 8]))
        elif kind == "segment-prefixed" and not rip:
            # the rule's own operand with a segment override in front (%fs:0x28(%rax)): an extra component, never a match
            c["seg"] = draw(st.sampled_from(["%fs", "%gs"]))
        elif kind == "other-position":
            c["pos"] = 3 - pos
        elif kind in ("register", "immediate"):
            c = {"special": kind, "reg": draw(st.sampled_from(REGS)), "imm": draw(st.sampled_from([0, 8, 0x10, 0x7fffffff])), "pos": pos}
        c["kind"] = kind
        c["reg"] = c.get("reg", draw(st.sampled_from(REGS)))
        cands.append(c)
    # the instruction around the operand: what a $deref accepts does not depend on it.  Scalar-single SSE mnemonics end in `ss`
    # (the letters of a segment prefix) and have 5-8 characters (objdump prints one blank after a mnemonic of 6 or more)
    mn = draw(st.sampled_from(["mov", "mov", "mov"] + sorted(x86enc.LOAD_FORMS if pos == 1 else x86enc.STORE_FORMS)))
    return {"route": route, "addr32": addr32, "fields": fields, "pos": pos, "cands": cands, "mn": mn}


@st.composite
def addr16_cases(draw):
    """16-bit addressing: objdump prints two-component references k(%bx,%si) - an index without a scale.  The rule has
    register_multiplier but no constant_multiplier; candidates are the same operand, other register pairs, other / no / added
    displacements, and the three-component spelling with a scale."""
    b16, i16 = ["%bx", "%bp"], ["%si", "%di"]
    a, b = draw(st.sampled_from(b16)), draw(st.sampled_from(i16))
    k = draw(st.sampled_from([None, "0x10", "0x8", "-0x8", "0x1a", "0x100"]))

    def spell(r):
        return r if draw(st.booleans()) else r[1:]

    fields = {"main_reg": spell(a), "register_multiplier": spell(b)}
    if k is not None:
        fields["constant_offset"] = k if draw(st.booleans()) else (k[2:] if not k.startswith("-") else "-" + k[3:])
    fields = {f: fields[f] for f in draw(st.permutations(list(fields)))}
    cands = []
    for _ in range(draw(st.integers(6, 16))):
        kind = draw(st.sampled_from(["same", "same", "pair-changed", "disp-changed", "disp-dropped", "disp-added", "scaled", "one-component", "register"]))
        ca, cb, ck, sc = a, b, k, None
        if kind == "pair-changed":
            ca, cb = draw(st.sampled_from([(x, y) for x in b16 for y in i16 if (x, y) != (a, b)]))
        elif kind == "disp-changed":
            ck = draw(st.sampled_from([x for x in ["0x10", "0x8", "-0x8", "0x1a", "0x100", "0x1"] if x != k]))
        elif kind == "disp-dropped":
            ck = None
        elif kind == "disp-added":
            ck = ck or "0x4"
        elif kind == "scaled":
            sc = draw(st.sampled_from(["1", "2"]))
        if kind == "register":
            cands.append([kind, "%ax", "%ax"])
        elif kind == "one-component":
            cands.append([kind, f"{ck or ''}({ca})", f"[{ca}+{ck}]" if ck else f"[{ca}]"])
        elif sc:
            cands.append([kind, f"{ck or ''}({ca},{cb},{sc})", f"[{ca}+{cb}*{sc}" + (f"+{ck}]" if ck else "]")])
        else:
            cands.append([kind, f"{ck or ''}({ca},{cb})", f"[{ca}+{cb}" + (f"+{ck}]" if ck else "]")])
    return {"route": "rendered", "form": "addr16", "addr32": False, "fields": fields, "pos": draw(st.integers(1, 2)), "cands": [], "cands16": cands}


def strategy(tier):
    return st.one_of(cases(), cases(), cases(), cases(), cases(), cases(), cases(), addr16_cases())


def cand_mn(c, mn, pos):
    """Mnemonic of candidate c: the case's own one where it exists in the direction the candidate needs."""
    if "special" in c:
        return "mov"
    forms = x86enc.LOAD_FORMS if c["pos"] == 1 else x86enc.STORE_FORMS
    return mn if mn in forms else "mov"


def cand_att(c, addr32, mn="mov"):
    """AT&T operand list [op1, op2] of candidate c as objdump would print it."""
    reg = "%" + x86enc.REG64[c["reg"]]
    if "special" not in c:
        reg = x86enc.reg_name(mn, c["reg"], store=c["pos"] == 2)
    if "special" in c:
        other = f"$0x{c['imm']:x}" if c["special"] == "immediate" else "%" + x86enc.REG64[(c["reg"] + 3) % 16]
        return [other, reg]
    a, b, sc, k = x86enc.att_mem(c["base"], c["index"], c["scale"], c["disp"], addr32, c["rip"], riz=c.get("riz", False))
    mem = (k or "") + "(" + (a or "") + (f",{b},{sc}" if b else "") + ")"
    if c.get("seg"):
        mem = c["seg"] + ":" + mem
    return [mem, reg] if c["pos"] == 1 else [reg, mem]


def cand_bytes(c, addr32, mn="mov"):
    if "special" in c:
        if c["special"] == "immediate":
            r = c["reg"]
            return bytes([0x48 | (r >> 3), 0xC7, 0xC0 | (r & 7)]) + c["imm"].to_bytes(4, "little")
        r, s = c["reg"], (c["reg"] + 3) % 16
        return bytes([0x48 | ((s >> 3) << 2) | (r >> 3), 0x89, 0xC0 | ((s & 7) << 3) | (r & 7)])
    op = "mov-load" if c["pos"] == 1 else "mov-store"
    enc = x86enc.encode_mem(op, c["reg"], base=c["base"], index=c["index"], scale=c["scale"], disp=c["disp"], addr32=addr32 and not c["rip"], rip=c["rip"], riz=c.get("riz", False),
                            mn=None if mn == "mov" else mn)
    return ({"%fs": b"\x64", "%gs": b"\x65"}[c["seg"]] if c.get("seg") else b"") + enc


def _norm(o):
    """Normal form of an operand of the candidate instructions: the C09 forms, and vector registers as they are."""
    import re

    if re.match(r"%[xyz]mm[0-9]+\Z", o):
        return o
    m = re.match(r"(%[cdefgs]s):(.*\))\Z", o)
    if m:
        # a segment override in front of a memory reference is outside the forms C09 lists; the stream's own convention puts it in
        # front of the displacement: %fs:0x28(%rax) -> [%rax+%fs:0x28], %gs:(%rdx) -> [%rdx+%gs:]
        inner = normal_form(("0x0" if m.group(2).startswith("(") else "") + m.group(2), pseudo_index=True)
        if inner is None:
            return None
        if m.group(2).startswith("("):
            return inner[:-len("0x0]")] + m.group(1) + ":]"
        k = m.group(2).split("(")[0]
        return inner[:-len(k) - 1] + m.group(1) + ":" + k + "]"
    return normal_form(o, pseudo_index=True)


def evaluate(case):
    ev = Eval()
    ev.subcases = 0
    addr32 = case["addr32"]
    fields = case["fields"]
    pos = case["pos"]
    mn = case.get("mn", "mov")
    # candidates that need the other direction (the memory operand at the other position) or have no memory operand are `mov`s: the
    # rule names what the two spellings share
    rule_mn = mn if all(cand_mn(c, mn, pos) == mn for c in case["cands"]) else ("mov" if mn.startswith("mov") else "")
    pattern = [{(rule_mn or "s" if mn.endswith("ss") else rule_mn or "m"): ([{"$deref": fields}] if pos == 1 else ["%", {"$deref": fields}])}]
    ev.tags = [f"route={case['route']}", f"pos={pos}", "fields=" + "".join(k[0] if k != "constant_offset" else "k" for k in sorted(fields))]
    ev.tags.append("mnemonic=" + ("mov" if mn == "mov" else "ends-in-ss" if mn.endswith("ss") else "other"))
    ev.tags += sorted({f"cand={c['kind']}" for c in case["cands"]})
    if case.get("form") == "addr16":
        ev.tags = ["route=rendered", "form=addr16", f"pos={pos}"] + sorted({f"cand16={c[0]}" for c in case["cands16"]})
        lines = list(HEADER)
        NV = []
        a = 0x100
        for kind, att, norm in case["cands16"]:
            ops_att = [att, "%ax"] if pos == 1 else ["%ax", att]
            ops_norm = [norm, "%ax"] if pos == 1 else ["%ax", norm]
            lines.append(inst_line(format(a, "x"), "mov", ops_att))
            NV.append((format(a, "x"), "mov", ops_norm))
            a += 3
        text = "\n".join(lines) + "\n"
    elif case["route"] == "rendered":
        lines = list(HEADER)
        NV = []
        a = 0x401000
        for c in case["cands"]:
            cmn = cand_mn(c, mn, pos)
            att = cand_att(c, addr32, cmn)
            norm = [_norm(o) for o in att]
            if any(n is None for n in norm):
                continue
            lines.append(inst_line(format(a, "x"), cmn, att))
            NV.append((format(a, "x"), cmn, norm))
            a += 7
        text = "\n".join(lines) + "\n"
    else:
        blob = b"".join(cand_bytes(c, addr32, cand_mn(c, mn, pos)) for c in case["cands"])
        path = jasm_io.scratch().write("deref.bin", blob)
        rc, text, _ = disassemble_blob(path)
        NV = []
        for ln in text.split("\n"):
            c = classify_line(ln)
            if c[0] != "inst":
                continue
            toks = [t for t in c[2].split("#")[0].split(" ") if t]
            ops = split_operands(toks[1]) if len(toks) > 1 else []
            norm = [_norm(o) for o in ops]
            if any(n is None for n in norm):
                ev.tags.append("unspec-operand")
                return ev
            NV.append((c[1], toks[0], norm))
    no_same_components = "constant_multiplier" in fields and "register_multiplier" not in fields
    before = len(ev.deviations)
    # what a $deref accepts does not depend on the full-match flags (they are about plain names): a third of the cases whose only
    # described operand is the $deref run with operands-full-match, another third with both flags (selector: a hash of the fields)
    import zlib

    sel = zlib.crc32(repr(sorted((k, str(v)) for k, v in fields.items())).encode()) % 3 if pos == 1 else 0
    mn_f, op_f = [(None, None), (None, True), (True, True)][sel]
    if sel:
        ev.tags.append("flags=" + ("operands-full" if sel == 1 else "both-full"))
    h_ = zlib.crc32(repr((sorted((k, str(v)) for k, v in fields.items()), pos, mn)).encode())
    if h_ % 4 == 3 and case.get("form") != "addr16":
        # the same rule delivered through a macro with one argument: one field of the $deref is the formal parameter (a short name, as
        # a user writes it: i, a, b, x, r - letters that also occur inside the literal fields beside it), the others stay literal
        from vlib.refmatch import Ref

        formal = ["i", "a", "b", "x", "r"][h_ // 4 % 5]
        f_ = sorted(fields)[h_ // 20 % len(fields)]
        body_fields = dict(fields)
        body_fields[f_] = formal
        item = copy.deepcopy(pattern[0])
        key = list(item)[0]
        item[key] = [({"$deref": body_fields} if isinstance(o, dict) else o) for o in item[key]]
        macro = {"name": "@yelem_", "args": [formal], "pattern": [item]}
        spans = Ref(NV, bool(mn_f), bool(op_f)).spans(pattern)
        ev.tags.append("rule=through-args-macro")
        exp, spans, rep = compare(ev, [{"@yelem_": {formal: fields[f_]}}], None, mn_f, op_f, modes=("list",), text=text, NV=NV, doc_macros=[macro], spans=spans)
    else:
        exp, spans, rep = compare(ev, pattern, None, mn_f, op_f, modes=("list",), text=text, NV=NV)
    if no_same_components:
        # rejecting such a rule is accepted; silently matching something is not
        ev.deviations[before:] = [d for d in ev.deviations[before:] if d["kind"] != "exception"]
        ev.tags.append("no-operand-has-these-components")
    # non-trivial sub-cases: same shape and equal / one component apart
    keys = []
    for c16 in case.get("cands16", []):
        if c16[0] in ("same", "pair-changed", "disp-changed"):
            keys.append((sorted((k, str(v)) for k, v in fields.items()), c16[0], c16[1]))
    for c in case["cands"]:
        if c["kind"] in ("same", "base-changed", "index-changed", "scale-changed", "disp-changed"):
            keys.append((sorted((k, str(v)) for k, v in fields.items()), c["kind"], tuple(cand_att(c, addr32))))
    ev.keys = keys
    ev.nontrivial = bool(keys)
    ev.subcases = len(NV)
    ev.sample = {"route": case["route"], "fields": fields, "pos": pos, "expected_match_starts": sorted(spans)[:6], "first_candidates": [list(x) for x in NV[:5]]}
    return ev
