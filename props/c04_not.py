"""C04 - `$not` consumes exactly one instruction (or operand) at which its argument fails."""
from hypothesis import assume, strategies as st

from vlib.gen_listing import OPERANDS, instruction_body, listings, norm_view
from vlib.gen_pattern import decoy_operand, describe_inst, describe_operand, listing_decoy, lit_ok, substr
from vlib.matcheval import compare, stream_sample
from vlib.refmatch import Ref
from vlib.runner import Eval

ID = "C04"
LEVEL = "exploration"
CGF_RUNS = {"thorough": 6000}  # coverage-guided stage (vlib/cgf.py): libFuzzer executions per worker, 16 workers
RULE = (
    "Rules with one or two $not nodes in a drawn position (leading, inner, trailing, repeated with times, nested in $or/$and/$and_any_order, a double negation $not[$not[X]], operand "
    "position) built around a site of a generated listing; the argument X is drawn from: a decoy (X fails at the site), the description of the site "
    "itself (X matches), the description of the following instruction/operand (X matches one later only), a 2-3 instruction group matching at the "
    "site, a group of which only the first instruction matches; then at most one listing mutator. Oracle: reference matcher (verdict in bool and "
    "all-matches mode, every reported span genuine). Non-trivial: the verdict depends on the $not node (the rule with $not replaced by 'any one "
    "instruction/operand' has a different reference verdict) or the case is expected-found; distinct by canonical hash."
)
ASSUMPTIONS = [
    "reference matcher and operand table are the trusted base",
    "an operand-level $not against an instruction without operands does not match (there is no operand to consume)",
    "listings <= 12 instructions",
]
POSITIONS = ["leading", "inner", "trailing", "repeated", "nested-or", "nested-and", "nested-any", "operand", "operand", "double", "not-not", "captures", "adjacent-nots", "repeated"]
ARGS = ["decoy", "decoy", "site", "next", "group-match", "group-first-only", "item-ops", "macro-times", "repeated-group-ranged-tail"]
MUTATORS = ["none", "none", "none", "insert", "delete", "swap", "replace-copy", "extend-mn"]
FLOORS = {f"pos={p}": 0.04 for p in set(POSITIONS)}
FLOORS.update({f"arg={a}": 0.06 for a in set(ARGS)})
FLOORS.update({"expect=found": 0.25, "depends-on-not": 0.15})


def budget(tier):
    return {"cases": 5000 if tier == "quick" else 100000}


def _names_ok(node, operand=False):
    if isinstance(node, list):
        return all(_names_ok(x, operand) for x in node)
    if isinstance(node, dict):
        for k, v in node.items():
            if k in ("$or", "$and", "$and_any_order", "$not"):
                if not _names_ok(v, operand):
                    return False
            elif k in ("$deref", "times"):
                continue
            else:
                if not lit_ok(str(k), operand=False):
                    return False
                if isinstance(v, list) and not _names_ok(v, True):
                    return False
        return True
    if node in ("&ya", "&yb"):
        return True
    return lit_ok(str(node), operand=operand)


def make_arg(draw, kind, NV, s, full):
    n = len(NV)
    if kind == "decoy":
        return listing_decoy(draw, NV, full)
    if kind == "site":
        return describe_inst(draw, NV[s], full)
    if kind == "item-ops":
        return describe_inst(draw, NV[s], full, force_ops=True)
    if kind == "next":
        return describe_inst(draw, NV[min(n - 1, s + 1)], full)
    if kind == "group-match":
        e = min(n, s + draw(st.integers(2, 3)))
        items = [describe_inst(draw, NV[k], full) for k in range(s, e)]
        return {draw(st.sampled_from(["$and", "$and_any_order"])): items}
    if kind == "group-first-only":
        return {"$and": [describe_inst(draw, NV[s], full), listing_decoy(draw, NV, full), "zz"][: draw(st.integers(2, 3))]}
    raise AssertionError(kind)


@st.composite
def cases(draw):
    pos = draw(st.sampled_from(POSITIONS))
    arg = draw(st.sampled_from(ARGS))
    mut = draw(st.sampled_from(MUTATORS))
    full = (draw(st.booleans()), draw(st.booleans())) if draw(st.integers(0, 2)) == 0 else (False, False)
    L = draw(listings(min_len=3, max_len=10))
    n = len(L)
    NV = norm_view(L)
    if pos in ("operand", "double") and pos == "operand":
        cands = [k for k in range(n) if NV[k][2] and " " not in "".join(L[k][2])]
        if not cands:
            L.insert(1, ["0", "mov", ["%rax", "$0x10", "%r8d"], ["%rax", "0x10", "%r8d"]])
            NV = norm_view(L)
            n = len(L)
            cands = [1]
        s = draw(st.sampled_from(cands))
        ops = NV[s][2]
        q = draw(st.integers(0, len(ops) - 1))
        if draw(st.integers(0, 5)) == 0:
            q = len(ops)  # one past the last real operand: there is no operand for the $not to consume
        pre = []
        for o in ops[:q]:
            d = describe_operand(draw, o, full[1])
            assume(d is not None)
            pre.append(d)
        if arg in ("decoy", "group-match", "group-first-only", "macro-times", "repeated-group-ranged-tail"):
            x = decoy_operand(draw)
        elif arg in ("site", "item-ops"):
            x = describe_operand(draw, ops[q], full[1]) if q < len(ops) else decoy_operand(draw)
        else:  # next
            x = describe_operand(draw, ops[q + 1], full[1]) if q + 1 < len(ops) else decoy_operand(draw)
        assume(x is not None)
        if draw(st.integers(0, 4)) == 0:
            x = {"$or": [x, decoy_operand(draw)]}
        post = []
        skip = 1 if (q + 2 < len(ops) and draw(st.integers(0, 3)) == 0) else 0  # near miss: the item after $not describes a LATER operand
        for o in ops[q + 1 + skip: q + 1 + skip + draw(st.integers(0 if not skip else 1, 2))]:
            d = describe_operand(draw, o, full[1])
            if d is None:
                break
            post.append(d)
        name = NV[s][1] if full[0] else substr(draw, NV[s][1])
        notnode = {"$not": [x]}
        # the $not as a child of another operand-level operator (one child: the same meaning; $and_any_order with the next operand's
        # description as second child: the two in either order)
        wrap = draw(st.sampled_from([None, None, None, None, "$and", "$or", "$and_any_order", "$and_any_order-2", "$and_any_order-2"]))
        if wrap == "$and_any_order-2" and post:
            notnode = {"$and_any_order": [post[0], notnode] if draw(st.booleans()) else [notnode, post[0]]}
            post = post[1:]
        elif wrap in ("$and", "$or", "$and_any_order"):
            notnode = {wrap: [notnode]}
        item = {name: pre + [notnode] + post}
        pattern = [item]
        i, j = s, s + 1
        if s > 0 and draw(st.booleans()):
            pattern.insert(0, describe_inst(draw, NV[s - 1], full))
            i = s - 1
        if s + 1 < n and draw(st.booleans()):
            pattern.append(describe_inst(draw, NV[s + 1], full))
            j = s + 2
    else:
        wlen = draw(st.integers(2, min(4, n)))
        i = draw(st.integers(0, n - wlen))
        j = i + wlen
        if pos == "leading":
            s = i
        elif pos == "trailing":
            s = j - 1
        elif pos == "inner":
            s = draw(st.integers(i + 1, j - 2)) if wlen >= 3 else i
        elif pos == "captures":
            # the argument of the $not DEFINES a capture, the item after it defines and reuses another one: what is (not) bound
            # inside the negation must not disturb the numbering of the captures outside it
            s = draw(st.integers(i, j - 2))
            r1 = draw(st.sampled_from(["%rax", "%rbx", "%rsi", "%r8"]))
            r2 = r1 if draw(st.integers(0, 2)) else draw(st.sampled_from(["%rcx", "%rdx"]))
            L[s + 1] = [L[s + 1][0], "mov", [r1, r2], [r1, r2]]
            if draw(st.integers(0, 3)) == 0:
                L[s] = [L[s][0], "push", ["%rcx"], ["%rcx"]]  # the negated item matches here
            NV = norm_view(L)
        else:
            s = draw(st.integers(i, j - 1))
        macros_, ref_x = None, None
        if arg == "macro-times":
            # the argument is a list-bodied macro invoked with times: $not[@m x2] is ONE instruction at which two consecutive @m do
            # not start (not two instructions each of which is not @m)
            body_ = describe_inst(draw, NV[s], full)
            n_ = draw(st.sampled_from([2, 2, 3]))
            x = {"@ynm_": {"times": n_}} if draw(st.booleans()) else {"@ynm_": [], "times": n_}
            ref_x = {"$and": [body_], "times": n_}
            macros_ = [{"name": "@ynm_", "pattern": [body_]}]
            for _ in range(draw(st.sampled_from([0, 1, 1, 2]))):
                L.insert(s + 1, ["0", L[s][1], list(L[s][2]), list(L[s][3])])  # a run of the instruction the macro describes
            NV = norm_view(L)
            j = min(len(L), j + 1)
        elif arg == "repeated-group-ranged-tail":
            # the argument is a group with an exact times whose last element carries a range: [I T{1,2}] x2 matches I T T I T
            body_ = describe_inst(draw, NV[s], full)
            t_ = draw(instruction_body())
            tail_ = describe_inst(draw, ("0", t_[0], t_[2]), full)
            tail_ = {list(tail_)[0]: tail_[list(tail_)[0]], "times": {"min": 1, "max": 2}} if isinstance(tail_, dict) else {tail_: {"times": {"min": 1, "max": 2}}}
            x = {draw(st.sampled_from(["$and", "$and", "$or"])): [{"$and": [body_, tail_]}] if draw(st.booleans()) else [body_, tail_], "times": 2}
            if list(x)[0] == "$or":
                x = {"$and": [{"$and": [body_, tail_]}], "times": 2}
            T_ = ["0", t_[0], list(t_[1]), list(t_[2])]
            I_ = ["0", L[s][1], list(L[s][2]), list(L[s][3])]
            shape_ = draw(st.sampled_from([[T_, T_, I_, T_], [T_, I_, T_], [T_, T_, I_], [T_, I_, T_, T_], [T_, T_]]))
            L[s + 1:s + 1] = [list(r_) for r_ in shape_]
            NV = norm_view(L)
            j = min(len(L), j + 1)
        else:
            x = make_arg(draw, arg, NV, s, full)
        notnode = {"$not": [x]}
        if pos == "not-not":
            # a double negation still consumes exactly ONE instruction, however many its argument spans: it matches the
            # instruction at which X matches (not the whole span of X)
            notnode = {"$not": [{"$not": [x]}]}
        descs = {k: describe_inst(draw, NV[k], full) for k in range(i, j)}
        if pos == "captures":
            x = draw(st.sampled_from([{"push": ["&ya"]}, {"$and": [{"push": ["&ya"]}, {"pop": ["&ya"]}]}, {"push": ["&ya"]}]))
            macros_ = None  # this position has its own argument
            pattern = [descs[k] for k in range(i, s)] + [{"$not": [x]}, {"mov": ["&yb", "&yb"]}] + [descs[k] for k in range(s + 2, j)]
        elif pos == "repeated":
            # a run of instructions each consumed by one repetition of the $not
            e = draw(st.integers(s + 1, j))
            t = e - s
            tv = t if draw(st.booleans()) else {"min": draw(st.integers(0, t)), "max": draw(st.integers(t, t + 1))}
            if draw(st.integers(0, 2)) == 0:
                # a wide window (`$not: [ret]` up to N times): the run in the listing is much shorter than the window allows, the
                # items after it have to be found all the same
                tv = {"min": draw(st.integers(0, t)), "max": draw(st.sampled_from([31, 32, 33, 40, 64, 200, 1000]))}
            notnode = {"$not": [x], "times": tv}
            pattern = [descs[k] for k in range(i, s)] + [notnode] + [descs[k] for k in range(e, j)]
        elif pos == "adjacent-nots":
            # two $not items next to each other whose arguments are alike up to a point: no operands / one operand, one / two
            # operands, two / three alternatives.  Each guards its own instruction with its own argument
            s = min(s, j - 2)
            tgt = NV[draw(st.sampled_from([s, s + 1]))]
            nm = tgt[1] if full[0] else substr(draw, tgt[1])
            ops = []
            for o in tgt[2][:2]:
                d = describe_operand(draw, o, full[1])
                if d is None:
                    break
                ops.append(d)
            style = draw(st.sampled_from(["name-vs-operand", "one-vs-two-operands", "or-two-vs-three"]))
            miss = decoy_operand(draw)
            if style == "name-vs-operand" or not ops:
                a1, a2 = nm, {nm: [ops[0] if ops and draw(st.booleans()) else miss]}
            elif style == "one-vs-two-operands":
                a1, a2 = {nm: ops[:1]}, {nm: ops[:1] + [ops[1] if len(ops) > 1 and draw(st.booleans()) else miss]}
            else:
                d1, d2 = listing_decoy(draw, NV, full), listing_decoy(draw, NV, full)
                a1, a2 = {"$or": [d1, d2]}, {"$or": [d1, d2, nm if not ops else {nm: ops[:1]}]}
            if draw(st.booleans()):
                a1, a2 = a2, a1
            pattern = [descs[k] for k in range(i, s)] + [{"$not": [a1]}, {"$not": [a2]}] + [descs[k] for k in range(s + 2, j)]
        elif pos == "nested-or":
            alt = listing_decoy(draw, NV, full)
            alts = [notnode, alt] if draw(st.booleans()) else [alt, notnode]
            pattern = [descs[k] for k in range(i, s)] + [{"$or": alts}] + [descs[k] for k in range(s + 1, j)]
        elif pos == "nested-and":
            e = draw(st.integers(s + 1, j))
            pattern = [descs[k] for k in range(i, s)] + [{"$and": [notnode] + [descs[k] for k in range(s + 1, e)]}] + [descs[k] for k in range(e, j)]
        elif pos == "nested-any":
            e = draw(st.integers(s + 1, j))
            kids = [notnode] + [descs[k] for k in range(s + 1, e)]
            pattern = [descs[k] for k in range(i, s)] + [{"$and_any_order": list(draw(st.permutations(kids)))}] + [descs[k] for k in range(e, j)]
        elif pos == "double":
            s2 = draw(st.integers(i, j - 1))
            pattern = []
            for k in range(i, j):
                if k == s:
                    pattern.append(notnode)
                elif k == s2:
                    pattern.append({"$not": [make_arg(draw, draw(st.sampled_from(ARGS[:7])), NV, k, full)]})
                else:
                    pattern.append(descs[k])
        else:
            pattern = [descs[k] if k != s else notnode for k in range(i, j)]
    # listing mutator
    if mut == "insert":
        m, oa, on = draw(instruction_body())
        L.insert(draw(st.integers(i, j)), ["0", m, oa, on])
    elif mut == "delete" and len(L) > 1:
        del L[draw(st.integers(i, j - 1))]
    elif mut == "swap" and len(L) >= 2:
        k2 = draw(st.integers(max(0, i - 1), min(len(L) - 2, j - 1)))
        L[k2], L[k2 + 1] = L[k2 + 1], L[k2]
    elif mut == "extend-mn":
        # an instruction in the window gets a longer mnemonic: matters to X only under mnemonics-full-match
        k2 = draw(st.integers(i, j - 1))
        L[k2][1] = L[k2][1] + draw(st.sampled_from(["l", "q", "x"]))
        full = (True, full[1]) if draw(st.booleans()) else full
    elif mut == "replace-copy":
        src = draw(st.integers(max(0, i - 1), min(len(L) - 1, j)))
        dst = draw(st.integers(i, j - 1))
        L[dst] = [L[dst][0], L[src][1], list(L[src][2]), list(L[src][3])]
    a = int(L[0][0], 16)
    for rec in L:
        rec[0] = format(a, "x")
        a += draw(st.integers(1, 7))
    out_ = {"pos": pos, "arg": arg, "mut": mut, "listing": L, "pattern": pattern, "flags": list(full)}
    if pos not in ("operand",) and "macros_" in dir() and macros_ and "@ynm_" in repr(pattern):
        import copy as _copy

        def _swap(node):
            if node == x:
                return _copy.deepcopy(ref_x)
            if isinstance(node, list):
                return [_swap(y) for y in node]
            if isinstance(node, dict):
                return {k: _swap(v) for k, v in node.items()}
            return node

        out_["macros"] = macros_
        out_["ref_pattern"] = _swap(pattern)
        assume(_names_ok(out_["ref_pattern"]))
    else:
        assume(_names_ok(pattern))
    return out_


def strategy(tier):
    return cases()


class _AnyRef(Ref):
    """The same rule with every $not read as 'any one instruction / any one operand'."""

    def m1(self, name, body, i, env):
        if name == "$not":
            return {(i + 1, env)} if i < len(self.I) else set()
        return super().m1(name, body, i, env)

    def o1(self, name, body, ops, k, env):
        if name == "$not":
            return {(k + 1, env)} if k < len(ops) else set()
        return super().o1(name, body, ops, k, env)


def eval_cut(case):
    """A long listing in which the argument of a $not straddles a plausible chunk size: `lea` at cut-2, `push` at cut-1, `pop` at
    cut, and the rule [lea, $not[$and[push, pop]]].  The negation looks at whole instructions to the right of its own - also when
    they lie beyond a round number of instructions; a little further on the same `lea ; push` is followed by something else."""
    from vlib import jasm_io
    from vlib.render import render

    ev = Eval()
    cut = case["cut"]
    NV = []
    addr = 0x400000
    for q in range(cut + 24):
        m = {cut - 2: "lea", cut - 1: "push", cut: "pop", cut + 8: "lea", cut + 9: "push", cut + 10: "inc"}.get(q, "nop")
        NV.append((format(addr, "x"), m, ["%rbx"] if m in ("push", "pop", "inc") else ["0x8(%rax)", "%rbx"] if m == "lea" else []))
        addr += 1 + q % 2
    pattern = [{"lea": ["rax"]}, {"$not": [{"$and": [{"push": ["rbx"]}, {"pop": ["rbx"]}]}]}]
    text = render(NV)
    want = [NV[cut + 8][0]]
    ev.subcases = 0
    for search in ("all", "first"):
        r = jasm_io.match(jasm_io.make_doc(pattern), text, mode="list", search=search, only_addr=True)
        ev.subcases += 1
        if r[0] == "inconclusive":
            ev.inconclusive += 1
        elif r[0] == "exc":
            ev.dev("exception", cut=cut, search=search, error=list(r[1:]))
        elif r[1] != want:
            ev.dev("not-across-cut", cut=cut, search=search, expected=want, observed=r[1][:4])
    ev.tags = ["cut-listing"]
    ev.nontrivial = True
    ev.keys = [("cut", cut)]
    return ev


def _cut_worker(cut):
    case = {"cut": cut}
    return case, eval_cut(case)


def extra(tier, seed, rep):
    import multiprocessing as mp

    from vlib import longlist

    with mp.get_context("fork").Pool(16, maxtasksperchild=1) as pool:
        for case, ev in pool.imap_unordered(_cut_worker, sorted(longlist.CUTS, reverse=True), chunksize=1):
            rep.add_eval(case, ev)
    rep.exhaustive_parts.append(f"long listings: a multi-instruction $not argument straddling each of the {len(longlist.CUTS)} chunk-size candidates")


def evaluate(case):
    if "cut" in case:
        return eval_cut(case)
    ev = Eval()
    ev.subcases = 0
    L, pattern = case["listing"], case["pattern"]
    mn_full, op_full = case["flags"]
    flagged = mn_full or op_full
    ref_pattern = case.get("ref_pattern", pattern)
    kw = {}
    if case.get("macros"):
        kw = {"doc_macros": case["macros"], "spans": Ref(norm_view(L), mn_full, op_full).spans(ref_pattern)}
    exp, spans, _ = compare(ev, pattern, L, mn_full if flagged else None, op_full if flagged else None, **kw)
    anyv = bool(_AnyRef(norm_view(L), mn_full, op_full).spans(ref_pattern))
    ev.tags = [f"pos={case['pos']}", f"arg={case['arg']}", f"mut={case['mut']}", "expect=found" if exp else "expect=notfound"]
    if anyv != exp:
        ev.tags.append("depends-on-not")
    ev.nontrivial = exp or anyv != exp
    ev.sample = {"pos": case["pos"], "arg": case["arg"], "mut": case["mut"], "flags": case["flags"], "pattern": pattern, "stream": stream_sample(L), "expected_found": exp}
    return ev
