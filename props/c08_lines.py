"""C08 - every disassembled instruction line yields exactly one stream instruction."""
from vlib import jasm_io
from vlib.objsrc import ALL_LAYOUTS, LAYOUT_ASSUMPTION, layout_tag, listing_for, source_tag, sources
from vlib.refnorm import classify_line, expected_mnemonics
from vlib.runner import Eval

from jasm.global_definitions import Instruction
from jasm.stringify_asm.implementations.gnu_objdump.asm_manual_parser_w_regex import parse_file_lines

ID = "C08"
LEVEL = "exploration"
RULE = (
    "Inputs are what objdump 2.40 itself prints (-D -b binary -M att in x86-64 / i386 / i8086 mode for byte blobs; -d -M att for generated ELF64/ELF32 "
    "relocatables with 1-5 sections and symbols), in the layouts objdump itself offers: default (7 bytes per line + continuation lines), -w and --insn-width=8/11/15 (8-15 bytes on one line, no continuation lines), --no-show-raw-insn and -w --no-show-raw-insn (no byte column); the code bytes are Hypothesis-drawn mixtures of raw bytes, PRNG blobs (seed and length drawn) and a table "
    "of encodings reaching prefixes, > 7-byte instructions, zero runs, (bad), rip-relative comments, branch hints, x87/AVX/AVX-512, `{vex}` pseudo prefixes, 16-bit addressing. Oracle: an "
    "independent line classifier; the sequence of (address, first token of the instruction text) over instruction lines, in file order, must equal the "
    "(address, mnemonic) sequence of the stream (all_instructions_string) and of parse_file_lines, modulo the two documented rewrites ('data16 ' dropped, '(bad)' as "
    "'bad'); nothing else may contribute; no exception. Non-trivial: the listing shows >= 3 of {continuation line, prefix, (bad), operand-less instruction, "
    "# comment, <symbol> annotation, '...' elision, several sections}; distinct by hash of the listing text."
)
ASSUMPTIONS = ["objdump (binutils 2.40) in this sandbox is the input source", "x86-64 and i386 objects and raw blobs; i8086 blobs reported as a separate class", LAYOUT_ASSUMPTION]
FLOORS = {"has-continuation": 0.2, "has-bad": 0.2, "has-comment": 0.1, "has-annotation": 0.2, "has-no-operand": 0.3, "has-elision": 0.05, "layout=no-raw": 0.08, "layout=wide": 0.04, "layout=insn-width-15": 0.04}


def budget(tier):
    return {"cases": 6000 if tier == "quick" else 100000}


def strategy(tier):
    return sources(layouts=ALL_LAYOUTS)


def features(text, lines):
    f = set()
    ninst = 0
    for ln in lines:
        c = classify_line(ln)
        if c[0] == "cont":
            f.add("has-continuation")
        elif c[0] == "inst":
            ninst += 1
            t = c[2]
            if "(bad)" in t:
                f.add("has-bad")
            if " " not in t.strip():
                f.add("has-no-operand")
            if "#" in t:
                f.add("has-comment")
            if "<" in t:
                f.add("has-annotation")
            if t.split(" ")[0] in ("rep", "repz", "repnz", "lock", "data16", "cs", "ds", "es", "ss", "fs", "gs", "addr32", "notrack", "bnd", "rex.W", "rex.B"):
                f.add("has-prefix")
        elif ln.strip() == "...":
            f.add("has-elision")
    if text.count("Disassembly of section") > 1:
        f.add("several-sections")
    return f, ninst


def compare_with_lines(ev, text, lines, config=None):
    """Shared by C08 and C16: stream and parse_file_lines versus the independent line classifier."""
    expected = []
    for ln in lines:
        c = classify_line(ln)
        if c[0] == "inst":
            expected.append((c[1], c[2]))
    r = jasm_io.stream_of(text, config=config)
    ev.subcases += 1
    if r[0] == "inconclusive":
        ev.inconclusive += 1
        return expected, None
    if r[0] == "exc":
        ev.dev("parser-exception", error=list(r[1:]))
        return expected, None
    stream = r[1]
    records = stream.split("|")
    if records and records[-1] == "":
        records.pop()
    if len(records) != len(expected):
        ev.dev("instruction-count", expected=len(expected), observed=len(records))
        # locate the first divergence for the report
    for k, ((addr, t), rec) in enumerate(zip(expected, records)):
        mns = expected_mnemonics(t)
        if not any(rec.startswith(f"{addr}::{mn},") for mn in mns):
            ev.dev("record-mismatch", index=k, line_address=addr, line_text=t, record=rec)
            break
    try:
        parsed = [e for e in parse_file_lines(lines) if isinstance(e, Instruction) and e.mnemonic != "empty"]
    except (Exception, AssertionError) as exc:  # noqa: BLE001
        ev.dev("parse_file_lines-exception", error=[type(exc).__name__, str(exc)[:200]])
        return expected, stream
    ev.subcases += 1
    if len(parsed) != len(expected):
        ev.dev("parse_file_lines-count", expected=len(expected), observed=len(parsed))
    for k, ((addr, t), ins) in enumerate(zip(expected, parsed)):
        if ins.addr != addr or ins.mnemonic not in expected_mnemonics(t):
            ev.dev("parse_file_lines-mismatch", index=k, line_address=addr, line_text=t, parsed=[ins.addr, ins.mnemonic])
            break
    return expected, stream


def evaluate(case):
    if "exact_length" in case:
        from vlib import longlist

        ev = Eval()
        dev = longlist.exact_length_case(case["exact_length"])
        if dev and not dev.get("inconclusive"):
            ev.deviations.append(dev)
        ev.nontrivial = True
        return ev
    return _evaluate(case)


def extra(tier, seed, rep):
    """Long synthetic listings whose length sits on / next to every plausible chunk size: the stream must still be exactly the
    concatenation of one record per instruction line (a fold or flush at k*4096 or 65536 instructions would show here)."""
    from vlib import longlist

    longlist.run_exact_lengths(rep, Eval)


RAW_NAMES = [b"caf\xe9", b"\xff\xfename", b"na\xc3(me", b"\x80abc", b"sym\xf0\x9f", b"f\xa0\xa1"]


def raw_symbol_names(ev, case, text):
    """ELF symbol names are byte strings and objdump prints them as they are.  One symbol of the object gets a name that is not
    valid UTF-8, in its label and in every <name+off> annotation, exactly where objdump would print it; labels and annotations
    contribute nothing, so the stream must be the one of the untouched listing and nothing may fail."""
    import re as _re
    import zlib

    if case["src"] != "object" or ev.deviations:
        return
    names = sorted(set(_re.findall(r"<(sym[0-9]+)(?:[+-]0x[0-9a-f]+)?>", text)))
    if not names:
        return
    h = zlib.crc32(text.encode())
    if h % 3:
        return  # one object listing in three
    victim = names[h // 3 % len(names)]
    raw = RAW_NAMES[h // 7 % len(RAW_NAMES)]
    data = _re.sub(rb"<" + victim.encode() + rb"(?=[+\->])", b"<" + raw, text.encode())
    if data == text.encode():
        return
    sc = jasm_io.scratch()
    lp = sc.write("c08_rawsym.s", data)
    rp = sc.write("c08_rawsym_rule.yaml", jasm_io.rule_text(jasm_io.make_doc(["zzzzzzzz"])))
    want = jasm_io.stream_of(text)
    got = jasm_io.match_files(rp, lp, mode="str")
    ev.subcases += 1
    ev.tags.append("non-utf8-symbol-name")
    if "inconclusive" in (want[0], got[0]) or want[0] != "ok":
        return
    if got[0] != "ok":
        ev.dev("fails-on-non-utf8-symbol-name", error=list(got[1:]), name=repr(raw), occurrences=data.count(raw))
    elif got[1] != want[1]:
        ev.dev("stream-changes-with-symbol-name", name=repr(raw))


def _evaluate(case):
    ev = Eval()
    ev.subcases = 0
    rc, text, _ = listing_for(case)
    ev.tags = [source_tag(case), layout_tag(case)]
    if rc != 0:
        ev.tags.append("objdump-failed")
        return ev
    lines = text.split("\n")
    compare_with_lines(ev, text, lines)
    if not ev.deviations:
        # the same with the address-range observer installed (it may rewrite operands of call/jmp, never add or drop records)
        before = len(ev.deviations)
        compare_with_lines(ev, text, lines, config={"valid_addr_range": {"min": "0x1000", "max": "0x2000"}})
        for d in ev.deviations[before:]:
            d["with_config"] = "valid_addr_range"
        ev.tags.append("also-with-addr-range-observer")
    raw_symbol_names(ev, case, text)
    f, ninst = features(text, lines)
    ev.tags += sorted(f)
    ev.nontrivial = len(f) >= 3
    ev.keys = [text]
    ev.sample = {"source": source_tag(case), "instruction_lines": ninst, "features": sorted(f), "first_lines": [ln for ln in lines if classify_line(ln)[0] == "inst"][:4]}
    return ev
