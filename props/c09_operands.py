"""C09 - operands reach patterns in a fixed normal form."""
from hypothesis import strategies as st

from vlib import jasm_io, x86enc
from vlib.elfw import disassemble_blob
from vlib.objsrc import ALL_LAYOUTS, LAYOUT_ASSUMPTION, LAYOUT_RULE, layout_tag, listing_for, source_tag, sources
from vlib.refnorm import instruction_text, GPR16, GPR32, GPR64, GPR8, classify_line, normal_form, split_operands
from vlib.render import HEADER, inst_line
from vlib.runner import Eval

from jasm.stringify_asm.implementations.gnu_objdump.asm_manual_parser_w_regex import parse_line
from jasm.global_definitions import Instruction

ID = "C09"
LEVEL = "exploration"
CGF_RUNS = {"thorough": 8000}  # coverage-guided stage (vlib/cgf.py): libFuzzer executions per worker, 16 workers
RULE = (
    "Three input routes (drawn first): 'synthetic' objdump-format lines whose 0-3 operands are composed from the forms the statement lists ($imm hex of any width, "
    "every GPR at every width, the five memory shapes over all base/index registers, scales 1/2/4/8, displacements of either sign, direct targets with/without "
    "<sym+off>); 'encoded' real objdump lines for ModRM/SIB encodings of mov/lea/add/cmp with generated (base,index,scale,disp); 'objdump' arbitrary code bytes "
    "through objdump. Oracle: a reference normaliser written from the statement (operands split at parenthesis depth 0, rewritten by shape); operand count and "
    "order must be preserved; operands outside the listed forms are UNSPEC (counted, only count/order checked). Checked on the stream record and on parse_line. "
    "Non-trivial: an instruction with >= 1 memory operand or >= 2 operands whose operands are all inside the listed forms; distinct by instruction text."
)
RULE += " Real objdump output is taken " + LAYOUT_RULE + "."
ASSUMPTIONS = ["an instruction printed with prefix words (lock, rep*, bnd, notrack, segment, addr32, rex.*) has the operands that follow its real mnemonic", "forms outside the statement's list (segment overrides, *, masks, %st(n), vector registers, two-component memory) are UNSPEC", "objdump 2.40 as input source for the real routes", LAYOUT_ASSUMPTION]
FLOORS = {"route=synthetic": 0.3, "route=encoded": 0.2, "shape=k(a,b,c)": 0.05, "shape=(a,b,c)": 0.03, "shape=k(,b,c)": 0.03, "shape=k(a)": 0.05, "shape=(a)": 0.03, "shape=imm": 0.05, "shape=target": 0.03}
MN = ["mov", "add", "lea", "cmp", "push", "call", "jmp", "imul", "test", "nop", "ret", "shl"]
ALLREG = GPR64 + GPR32 + GPR16 + GPR8


def budget(tier):
    return {"cases": 4000 if tier == "quick" else 80000}


@st.composite
def disp(draw):
    v = draw(st.one_of(st.sampled_from([0, 8, 0x10, 0x7f, 0x80, 0x1a, 0x18, 0x7fffffff, 0xa, 0xb, 0xc, 0xd, 0xe]), st.integers(0, 2**31 - 1)))
    return -v if draw(st.booleans()) else v


@st.composite
def syn_operand(draw):
    shape = draw(st.sampled_from(["imm", "reg", "reg", "k(a,b,c)", "(a,b,c)", "k(,b,c)", "k(a)", "(a)"]))
    r64 = GPR64 + GPR32
    if shape == "imm":
        v = draw(st.one_of(st.integers(0, 255), st.integers(0, 2**64 - 1)))
        return shape, f"$0x{v:x}"
    if shape == "reg":
        return shape, "%" + draw(st.sampled_from(ALLREG))
    a = "%" + draw(st.sampled_from(r64 + ["rip"]))
    b = "%" + draw(st.sampled_from([r for r in r64 if r not in ("rsp", "esp")]))
    c = draw(st.sampled_from([1, 2, 4, 8]))
    k = x86enc.hexs(draw(disp()))
    return shape, {"k(a,b,c)": f"{k}({a},{b},{c})", "(a,b,c)": f"({a},{b},{c})", "k(,b,c)": f"{k}(,{b},{c})", "k(a)": f"{k}({a})", "(a)": f"({a})"}[shape]


@st.composite
def cases(draw):
    route = draw(st.sampled_from(["synthetic", "synthetic", "encoded", "encoded", "objdump"]))
    if route == "synthetic":
        insts = []
        for _ in range(draw(st.integers(1, 6))):
            m = draw(st.sampled_from(MN))
            if m in ("call", "jmp") and draw(st.booleans()):
                t = format(draw(st.integers(0, 2**48)), "x")
                ann = draw(st.sampled_from(["", f" <main+0x{draw(st.integers(0, 4096)):x}>", " <_start>", " <f@plt>"]))
                insts.append([m, [["target", t + ann]]])
                continue
            n = draw(st.sampled_from([0, 1, 2, 2, 3]))
            if draw(st.integers(0, 9)) == 0:
                m = draw(st.sampled_from(["lock", "rep", "repz", "repnz", "bnd", "notrack", "cs", "fs", "addr32", "lock rep"])) + " " + m
            insts.append([m, [list(draw(syn_operand())) for _ in range(n)]])
        return {"route": route, "insts": insts, "base": draw(st.sampled_from([0, 0x401000, 0xadd0]))}
    if route == "encoded":
        encs = []
        for _ in range(draw(st.integers(1, 8))):
            kind = draw(st.sampled_from(["bis", "bis", "b", "is", "rip"]))
            e = {"op": draw(st.sampled_from(sorted(x86enc.OPCODES))), "reg": draw(st.integers(0, 15)), "disp": draw(st.sampled_from([0, 0, 8, -8, 0x10, 0x7f, 0x80, -0x80, -0x81, 0x12345, 0x1a, 0x18]) | st.integers(-2**31, 2**31 - 1)), "addr32": draw(st.integers(0, 5)) == 0}
            if kind in ("bis", "b"):
                e["base"] = draw(st.integers(0, 15))
            if kind in ("bis", "is"):
                e["index"] = draw(st.sampled_from([i for i in range(16) if i != 4]))
                e["scale"] = draw(st.sampled_from([1, 2, 4, 8]))
            if kind == "rip":
                e["rip"] = True
                e["addr32"] = False
            encs.append(e)
        return {"route": route, "encs": encs}
    return {"route": route, "source": draw(sources(max_chunks=8, layouts=ALL_LAYOUTS))}


def strategy(tier):
    return cases()


PREFIXES = {"lock", "rep", "repz", "repe", "repnz", "repne", "bnd", "notrack", "addr32", "addr16", "data32", "cs", "ds", "es", "fs", "gs", "ss", "xacquire", "xrelease"}


def is_prefix(tok):
    return tok in PREFIXES or tok.startswith("rex")


def check_line(ev, addr, text, record, counts):
    """One instruction line: expected operands by the reference normaliser vs the stream record and parse_line."""
    text = instruction_text(text).replace("data16 ", "")  # objdump -w -r puts the relocation record after a TAB: not part of the instruction
    toks = text.split("#")[0].split()
    if not toks:
        return
    opstr = toks[1] if len(toks) > 1 else ""
    if is_prefix(toks[0]) and len(toks) > 1:
        # objdump prints prefixes as words of their own in front of the mnemonic: the instruction's operands are what follows
        # the real mnemonic, and the statement promises them (count, order, normal form) like those of any other instruction
        return check_prefixed_line(ev, text, toks, record, counts)
    att = split_operands(opstr) if opstr else []
    want = [normal_form(o) for o in att]
    fields = record.split("::", 1)[1].split(",") if "::" in record else []
    got = fields[1:-1] if len(fields) >= 3 else None
    if got is None:
        ev.dev("record-malformed", line=text, record=record)
        return False
    if got == [""]:
        got = []
    inside = all(w is not None for w in want)
    if len(got) != len(want):
        # a comma inside parentheses split an operand, or a separating comma did not
        if inside:
            ev.dev("operand-count", line=text, expected=want, observed=got)
            return False
        counts["unspec-count-differs"] = counts.get("unspec-count-differs", 0) + 1
        return None
    for q, (w, g) in enumerate(zip(want, got)):
        if w is not None and w != g:
            ev.dev("operand-normal-form", line=text, position=q, att=att[q], expected=w, observed=g)
            return False
    return inside


def check_prefixed_line(ev, text, toks, record, counts):
    k = 0
    while k < len(toks) - 1 and is_prefix(toks[k]):
        k += 1
    real_mnemonic = toks[k]
    opstr = toks[k + 1] if len(toks) > k + 1 else ""
    att = split_operands(opstr) if opstr else []
    want = [normal_form(o) for o in att]
    fields = record.split("::", 1)[1].split(",") if "::" in record else []
    got = fields[1:-1] if len(fields) >= 3 else None
    if got is None:
        ev.dev("record-malformed", line=text, record=record)
        return False
    if got == [""]:
        got = []
    counts["prefixed"] = counts.get("prefixed", 0) + 1
    if not all(w is not None for w in want):
        return None  # operands outside the listed forms: nothing promised
    if got == want:
        return True
    # known finding F15 has exactly this shape: the prefix is taken for the mnemonic, the next word for the only operand
    ev.dev("prefixed-instruction-loses-operands", line=text, prefix=toks[0], following_word=toks[1], mnemonic_in_stream=fields[0] if fields else None,
           operands_in_stream=got, expected_operands=want)
    return None  # keep checking the other lines of the listing


def extra(tier, seed, rep):
    """Long listings (every 97th instruction with operands) whose length sits on / next to the block sizes a buffered writer of the
    stream would use: each record still carries its own operands, in order, and nothing of its neighbour's."""
    from vlib import longlist

    longlist.run_exact_lengths(rep, Eval, lengths=sorted({c + d for c in (4096, 8192, 32768, 65536, 131072) for d in (-1, 0, 1)}))


def evaluate(case):
    if "exact_length" in case:
        from vlib import longlist

        ev = Eval()
        ev.tags = ["exact-length-listing"]
        ev.nontrivial = True
        ev.subcases = case["exact_length"]
        dev = longlist.exact_length_case(case["exact_length"])
        if dev and dev.get("inconclusive"):
            ev.inconclusive += 1
        elif dev:
            ev.deviations.append(dev)
        return ev
    ev = Eval()
    route = case["route"]
    ev.tags = [f"route={route}"]
    shapes = set()
    if route == "synthetic":
        lines = list(HEADER)
        a = case["base"]
        for m, ops in case["insts"]:
            shapes |= {f"shape={s}" for s, _ in ops}
            lines.append(inst_line(format(a, "x"), m, [o for _, o in ops]))
            a += 4
        text = "\n".join(lines) + "\n"
    elif route == "encoded":
        blob = b"".join(
            x86enc.encode_mem(e["op"], e["reg"], base=e.get("base"), index=e.get("index"), scale=e.get("scale", 1), disp=e["disp"], addr32=e["addr32"], rip=e.get("rip", False))
            for e in case["encs"]
        )
        path = jasm_io.scratch().write("enc.bin", blob)
        rc, text, _ = disassemble_blob(path)
        for e in case["encs"]:
            a_, b_, c_, k_ = x86enc.att_mem(e.get("base"), e.get("index"), e.get("scale", 1), e["disp"], e["addr32"], e.get("rip", False))
            shapes.add("shape=" + ("k" if k_ else "") + "(" + ("a" if a_ else "") + (",b,c" if b_ else "") + ")")
    else:
        rc, text, _ = listing_for(case["source"])
        ev.tags += [source_tag(case["source"]), layout_tag(case["source"])]
        if rc != 0:
            return ev
    ev.tags += sorted(shapes)
    r = jasm_io.stream_of(text)
    if r[0] == "inconclusive":
        ev.inconclusive += 1
        return ev
    if r[0] == "exc":
        ev.dev("parser-exception", error=list(r[1:]))
        return ev
    records = r[1].split("|")[:-1]
    ilines = [(c[1], c[2], ln) for ln in text.split("\n") for c in [classify_line(ln)] if c[0] == "inst"]
    if len(records) != len(ilines):
        ev.dev("instruction-count", expected=len(ilines), observed=len(records))
        return ev
    # the same listing with an address range configured that contains every address: only direct branches may be presented
    # differently (as valid_addr, C18); the operands of every other instruction reach the patterns unchanged
    r2 = jasm_io.stream_of(text, config={"valid_addr_range": {"min": "0", "max": "ffffffffffffffff"}})
    if r2[0] == "ok":
        rec2 = r2[1].split("|")[:-1]
        if len(rec2) != len(records):
            ev.dev("instruction-count-with-addr-range", expected=len(records), observed=len(rec2))
            return ev
        for (addr, t, ln), a_, b_ in zip(ilines, records, rec2):
            if a_ != b_:
                mn = a_.split("::", 1)[1].split(",")[0] if "::" in a_ else ""
                branchy = mn.startswith(("j", "call", "loop", "xbegin")) or is_prefix(mn)
                if not branchy:
                    ev.dev("non-branch-operands-rewritten-by-addr-range", line=t, plain=a_, with_range=b_)
                    return ev
    elif r2[0] == "exc":
        # branch operands that are not addresses (e.g. `jmp *%rax` forms are fine; exotic ones may be refused): not judged here
        ev.tags.append("addr-range-stream-raised")
    counts = {}
    keys = []
    ev.subcases = 0
    for (addr, t, ln), rec in zip(ilines, records):
        ev.subcases += 1
        res = check_line(ev, addr, t, rec, counts)
        if res is False:
            break
        # the same through parse_line
        pl = parse_line(ln)
        if isinstance(pl, Instruction):
            got = [pl.addr, pl.mnemonic] + list(pl.operands)
            exp = rec.split("::")[0:1] + [f for f in rec.split("::", 1)[1].split(",")[:-1]]
            if exp and exp[-1] == "" and len(exp) == 3 and not pl.operands:
                exp = exp[:2]
            if got != exp:
                ev.dev("parse_line-vs-stream", line=t, parse_line=got, stream=exp)
                break
        if res is True:
            ops = t.replace("data16 ", "").split("#")[0].split()
            opstr = ops[1] if len(ops) > 1 else ""
            if "(" in opstr or len(split_operands(opstr)) >= 2:
                keys.append(t.split("#")[0].split("<")[0].strip())
        elif res is None:
            ev.tags.append("unspec") if "unspec" not in ev.tags else None
    if counts.get("prefixed"):
        ev.tags.append("has-prefixed-instruction")
    ev.nontrivial = bool(keys)
    ev.keys = keys
    if "synthetic" == route:
        for m, ops in case["insts"]:
            for s, _ in ops:
                if f"shape={s}" not in ev.tags:
                    ev.tags.append(f"shape={s}")
    ev.sample = {"route": route, "lines": [t for _, t, _ in ilines][:5], "stream": "|".join(records[:5])}
    return ev
