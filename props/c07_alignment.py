"""C07 - matches are instruction-aligned and report genuine addresses."""
from hypothesis import strategies as st

from vlib import jasm_io
from vlib.gen_listing import att_view, norm_view
from vlib.gen_rules import broad_text, SHIPPED_MACROS, broad_cases
from vlib.matcheval import found_by, locate, record_table, run_all_modes, stream_sample
from vlib.model import stream_record
from vlib.refmatch import Ref
from vlib.render import render
from vlib.runner import Eval

ID = "C07"
LEVEL = "exploration"
CGF_RUNS = {"thorough": 3000}  # coverage-guided stage (vlib/cgf.py): libFuzzer executions per worker, 16 workers
RULE = (
    "Rules from the broadest generator (any operator leading, operand lists shorter/equal/longer than the instruction's, times incl. min:0, single-use "
    "captures, $deref, the shipped tests/macros/jasm_macros.yaml passed through macros= with @any as mnemonic/operand/deref component and the group macros) "
    "x listings with lower-case hex addresses (optionally restarting, as in multi-section objects), one listing mutator, both search modes, both address-only "
    "settings. Oracle (validity predicate, no prediction): every full-text match equals the concatenation of stream records i..j-1 for some i<j, in "
    "left-to-right order; the address-only result is addr_i; for rules without @any inside $deref additionally (i,j) must be a span the reference matcher "
    "accepts, with @any read as a one-field wildcard. Non-trivial: >= 1 reported non-empty match; distinct by canonical hash."
)
ASSUMPTIONS = [
    "the stream predicted from the listing model equals JASM's stream (checked separately in C08-C10)",
    "a rule whose items may all be absent is found where it covers at least one instruction; an empty match is never an occurrence (F42)",
    "@any as a $deref component may span several components of one bracket operand: alignment only",
]
FLOORS = {"reported>=1": 0.3, "macros": 0.3, "feat=@any-operand": 0.02, "feat=@any-mnemonic": 0.02, "feat=extra-operands": 0.03, "feat=capture": 0.03}


def budget(tier):
    return {"cases": 5000 if tier == "quick" else 100000}


def strategy(tier):
    return broad_cases()


def eval_cut(case):
    """A long listing whose record just before a plausible chunk size ends in hexadecimal digits (`push $0x10`) and whose record at
    the chunk size is a unique instruction: the match of that instruction must start at its own first character, report its
    own address, and the two-instruction match across the cut must be the concatenation of both records."""
    from vlib import longlist

    ev = Eval()
    cut = case["cut"]
    NV = []
    addr = 0x400000
    for q in range(cut + 40):
        if q == cut - 1:
            NV.append((format(addr, "x"), "push", ["0x10"]))
        elif q == cut:
            NV.append((format(addr, "x"), "zzke", []))
        elif q == cut + 1:
            NV.append((format(addr, "x"), "call", ["4010a0"]))
        elif q == cut + 2:
            NV.append((format(addr, "x"), "zzle", ["%rax"]))
        else:
            NV.append((format(addr, "x"), "nop", []))
        addr += 1 + q % 2
    records = [stream_record(a, m, o) for a, m, o in NV]
    table = record_table(records)
    text = render([(a, m, ["$" + o if o.startswith("0x") else o for o in ops]) for a, m, ops in NV])
    for name, pattern, i, j in [("single-at-cut", ["zzke"], cut, cut + 1), ("pair-across-cut", ["push", "zzke"], cut - 1, cut + 1), ("after-hex-operand", ["zzle"], cut + 2, cut + 3)]:
        doc = jasm_io.make_doc(pattern)
        combos = [("list", "all", False), ("list", "all", True)] if name != "pair-across-cut" else [("list", "first", False)]
        res = run_all_modes(doc, text, None, combos=combos)
        ev.subcases += len(combos)
        for key, r in res.items():
            if r[0] == "inconclusive":
                ev.inconclusive += 1
            elif r[0] == "exc":
                ev.dev("exception", cut=cut, rule=name, mode=list(key), error=list(r[1:]))
            elif key[2]:
                if r[1] != [NV[i][0]]:
                    ev.dev("address-mismatch", cut=cut, rule=name, expected=[NV[i][0]], observed=r[1][:3])
            else:
                want = "".join(records[i:j])
                if r[1] != [want]:
                    ev.dev("match-not-aligned", cut=cut, rule=name, expected=want, observed=[t[:80] for t in r[1][:3]])
    ev.tags = ["cut-listing"]
    ev.nontrivial = True
    ev.keys = [("cut", cut)]
    ev.sample = {"cut": cut, "instructions": len(NV)}
    return ev


def _cut_worker(cut):
    case = {"cut": cut}
    return case, eval_cut(case)


def extra(tier, seed, rep):
    """Long listings around every plausible chunk size (vlib/longlist.py): alignment and addresses of matches at the cut."""
    import multiprocessing as mp

    from vlib import longlist

    with mp.get_context("fork").Pool(16, maxtasksperchild=1) as pool:
        for case, ev in pool.imap_unordered(_cut_worker, sorted(longlist.CUTS, reverse=True), chunksize=1):
            rep.add_eval(case, ev)
    for k in range(len(EVEX_LINES)):
        rep.add_eval({"evex": k}, eval_evex({"evex": k}))
    rep.exhaustive_parts.append(f"{len(EVEX_LINES)} real AVX-512 lines with an indexed, decorated memory operand: one wildcard item per operand finds them, one more finds nothing")
    for k in range(len(DEREF_ITEM_RULES)):
        rep.add_eval({"deref_item": k}, eval_deref_item({"deref_item": k}))
    rep.exhaustive_parts.append(f"$deref written where an instruction is expected: {len(DEREF_ITEM_RULES)} fixed rules")
    rep.exhaustive_parts.append(f"long listings: all {len(longlist.CUTS)} chunk-size candidates x 3 rules at the cut (single instruction, pair across it, instruction after a hex-ending operand)")


DEREF_ITEM_RULES = [
    [{"$deref": {"main_reg": "rax"}}],
    [{"$deref": {"main_reg": "rax", "constant_offset": "0x8"}}],
    [{"$or": [{"$deref": {"main_reg": "rax"}}, "zzq"]}],
    [{"$and": [{"$deref": {"main_reg": "rax"}}]}],
    ["mov", {"$deref": {"main_reg": "rax"}}],
]


def eval_deref_item(case):
    """`$deref` written where an instruction is expected (an item of the pattern, a child of an instruction-level group): whatever
    JASM makes of such a rule - an error is fine - a reported match must begin and end at instruction boundaries and carry an
    address of the input (F50: it compiles to the bare operand regex and reports `[%rax],` as match and as address)."""
    ev = Eval()
    L = [["401000", "push", ["%rbp"], ["%rbp"]], ["401001", "mov", ["(%rax)", "%rbx"], ["[%rax]", "%rbx"]], ["401004", "mov", ["0x8(%rax)", "%rcx"], ["[%rax+0x8]", "%rcx"]], ["401008", "ret", [], []]]
    NV = norm_view(L)
    records = [stream_record(a, m, o) for a, m, o in NV]
    table = record_table(records)
    from vlib.gen_listing import att_view
    from vlib.render import render

    res = run_all_modes(jasm_io.make_doc(DEREF_ITEM_RULES[case["deref_item"]]), render(att_view(L)), None, combos=[("list", "all", False), ("list", "all", True)])
    ev.subcases = 2
    ev.tags = ["deref-as-item"]
    ev.nontrivial = True
    if any(r[0] == "inconclusive" for r in res.values()):
        ev.inconclusive += 1
        return ev
    if any(r[0] == "exc" for r in res.values()):
        ev.tags.append("deref-as-item=rejected")
        return ev
    pos = 0
    for t in res[("list", "all", False)][1]:
        ij = locate(t, records, table, pos) if t != "" else None
        if ij is None:
            ev.dev("match-not-aligned", observed=t, rule=DEREF_ITEM_RULES[case["deref_item"]])
            break
        pos = ij[2] + len(t)
    for a in res[("list", "all", True)][1]:
        if a not in {r[0] for r in NV}:
            ev.dev("address-not-in-input", observed=a, rule=DEREF_ITEM_RULES[case["deref_item"]])
            break
    return ev


EVEX_LINES = [  # (bytes, mnemonic, number of operands) - AVX-512 memory operands with an index and a decoration behind the parenthesis
    ("62f17c492904c8", "vmovaps", 2),    # vmovaps %zmm0,(%rax,%rcx,8){%k1}
    ("62f17c5858449810", "vaddps", 3),   # vaddps 0x40(%rax,%rbx,4){1to16},%zmm0,%zmm0
    ("62f1fd4929449810", "vmovapd", 2),  # vmovapd %zmm0,0x400(%rax,%rbx,4){%k1}
    ("62f27d4992048a", "vgatherdps", 2),  # vgatherdps (%rdx,%zmm1,4),%zmm0{%k1}
    ("62f17cc9280cc8", "vmovaps", 2),    # vmovaps (%rax,%rcx,8),%zmm1{%k1}{z}
    ("62f1f558590498", "vmulpd", 3),     # vmulpd (%rax,%rbx,4){1to8},%zmm1,%zmm0
]


def eval_evex(case):
    """Real objdump lines whose memory operand has base, index, scale AND a mask / broadcast decoration: a rule with one wildcard item
    per operand finds exactly the instructions of that mnemonic, each match one whole record under its own address; a rule with one
    item more finds nothing (commas inside the parentheses never make an operand)."""
    from vlib.elfw import disassemble_blob
    from vlib.gen_rules import SHIPPED_MACROS
    from vlib.refnorm import classify_line

    ev = Eval()
    sc = jasm_io.scratch()
    rc, text, _ = disassemble_blob(sc.write("c07_evex.bin", b"".join(bytes.fromhex(b_) for b_, _m, _k in EVEX_LINES)))
    addrs = {}
    for ln in text.split("\n"):
        c = classify_line(ln)
        if c[0] == "inst":
            addrs.setdefault(c[2].split(" ")[0], []).append(c[1])
    _b, mn, k = EVEX_LINES[case["evex"]]
    ev.subcases = 0
    for items, want in ((k, addrs.get(mn, [])), (k + 1, [])):
        doc = jasm_io.make_doc([{mn: ["@any"] * items}], True, None)
        r = jasm_io.match(doc, text, mode="list", search="all", macros=[SHIPPED_MACROS])
        ev.subcases += 1
        if r[0] == "inconclusive":
            ev.inconclusive += 1
            continue
        if r[0] != "ok":
            ev.dev("exception", evex=case["evex"], items=items, error=list(r[1:]))
            continue
        got = [t.split("::")[0] for t in r[1]]
        if got != want:
            ev.dev("operand-items-vs-operands", evex=case["evex"], mnemonic=mn, operands=k, items=items, expected_addresses=want, observed=[t[:80] for t in r[1]])
        elif any(not t.endswith("|") or t.count("|") != 1 or not t.startswith(a_ + "::" + mn + ",") for t, a_ in zip(r[1], want)):
            ev.dev("match-not-aligned", evex=case["evex"], observed=[t[:80] for t in r[1]])
    ev.tags = ["evex-decorated-memory-operand"]
    ev.nontrivial = True
    ev.keys = [("evex", case["evex"])]
    return ev


def evaluate(case):
    if "cut" in case:
        return eval_cut(case)
    if "evex" in case:
        return eval_evex(case)
    if "deref_item" in case:
        return eval_deref_item(case)
    ev = Eval()
    L = case["listing"]
    NV = norm_view(L)
    records = [stream_record(a, m, o) for a, m, o in NV]
    table = record_table(records)
    text = broad_text(case)
    macros = [SHIPPED_MACROS] if case["macros"] else None
    # a valid_addr_range that contains no address of the vocabulary installs the tagging observer without tagging anything
    cfg = {"valid_addr_range": {"min": "fffffffff000", "max": "fffffffffff0"}} if case.get("transparent_addr_range") else None
    tagging = False
    if cfg is not None:
        # ... or, where the listing allows it, a range of one address that is the target of direct `call` / `jmp` instructions only:
        # those records then read `call,valid_addr,|` - still one record per instruction, with one operand field
        import re
        import zlib

        hexes = [(k_, o_[0]) for k_, (a_, m_, o_) in enumerate(NV) if m_ in ("call", "jmp") and len(o_) == 1 and re.fullmatch(r"[0-9a-f]+", o_[0])]
        if hexes and zlib.crc32(repr(NV).encode()) % 2 == 0:
            T = hexes[0][1]
            users = [m_ for a_, m_, o_ in NV if o_ and o_[0] == T]
            if all(m_ in ("call", "jmp") for m_ in users) and not any(T in o_ for a_, m_, ops_ in NV for o_ in ops_[1:]):
                cfg = {"valid_addr_range": {"min": T, "max": T}}
                NV = [(a_, m_, ["valid_addr"] if (m_ in ("call", "jmp") and o_ and o_[0] == T) else o_) for a_, m_, o_ in NV]
                records = [stream_record(a, m, o) for a, m, o in NV]
                table = record_table(records)
                tagging = True
    if case.get("sections_cfg"):
        cfg = dict(cfg or {}, sections=case["sections_cfg"])
    mn_full, op_full = case.get("flags", [False, False])
    doc = jasm_io.make_doc(case["pattern"], mn_full or None, op_full or None, config=cfg)
    if mn_full or op_full:
        ev.tags.append("flags=full")
    res = run_all_modes(doc, text, macros, combos=[("list", "all", False), ("list", "all", True), ("list", "first", False), ("list", "first", True)])
    ev.subcases = 4
    ev.tags = [f"mut={case['mut']}"] + [f"feat={f}" for f in case["features"]]
    if case["macros"]:
        ev.tags.append("macros")
    if case["repeated_addresses"]:
        ev.tags.append("repeated-addresses")
    if case.get("cont"):
        ev.tags.append("continuation-lines")
    if case.get("transparent_addr_range"):
        ev.tags.append("addr-range-observer")
    if tagging:
        ev.tags.append("addr-range-tags-a-target")
    outs = {}
    for key, r in res.items():
        if r[0] == "inconclusive":
            ev.inconclusive += 1
        elif r[0] == "exc":
            ev.dev("exception", mode=list(key), error=list(r[1:]))
        else:
            outs[key] = r[1]
    if len(outs) < 4:
        return ev
    full_all = outs[("list", "all", False)]
    addr_all = outs[("list", "all", True)]
    in_fragment = "@any-deref" not in case["features"]
    ref = Ref(NV, bool(mn_full), bool(op_full), any_macro="@any")
    spans = ref.spans(case["ref_pattern"]) if in_fragment else None
    nullable = Ref([], bool(mn_full), bool(op_full), any_macro="@any").spans_empty(case["ref_pattern"]) if in_fragment else None
    pos = 0
    exp_addrs = []
    nonempty = 0
    ok = True
    for t in full_all:
        if t == "":
            # covers no instruction, has no address: never an occurrence, whatever the rule (F42)
            ev.dev("empty-match", pattern=case["pattern"])
            ok = False
            break
        ij = locate(t, records, table, pos)
        if ij is None:
            ev.dev("match-not-aligned", observed=t)
            ok = False
            break
        nonempty += 1
        pos = ij[2] + len(t)
        exp_addrs.append(NV[ij[0]][0])
        if spans is not None and ij[1] not in spans.get(ij[0], ()):
            ev.dev("match-not-genuine", observed=t, span=[ij[0], ij[1]])
            ok = False
            break
    if ok:
        if addr_all != exp_addrs:
            ev.dev("address-mismatch", expected=exp_addrs[:6], observed=addr_all[:6])
        for a in addr_all:
            if a != "" and a not in {r[0] for r in NV}:
                ev.dev("address-not-in-input", observed=a)
                break
        if outs[("list", "first", False)] != full_all[:1]:
            ev.dev("first-full-differs", expected=full_all[:1], observed=outs[("list", "first", False)])
        if outs[("list", "first", True)] != addr_all[:1]:
            ev.dev("first-addr-differs", expected=addr_all[:1], observed=outs[("list", "first", True)])
        if spans is not None and found_by(spans) != bool(full_all):
            ev.dev("verdict", expected=found_by(spans), observed=full_all[:2])
    if nonempty:
        ev.tags.append("reported>=1")
    ev.nontrivial = nonempty > 0
    ev.sample = {"pattern": case["pattern"], "macros": case["macros"], "stream": stream_sample(L), "matches": full_all[:3], "addresses": addr_all[:3]}
    return ev
