"""C03 - $or / $and / $and_any_order compose as alternation, sequence, permutation."""
from hypothesis import assume, strategies as st

from vlib.gen_listing import OPERANDS, instruction_body, listings, norm_view, parse_norm_mem
from vlib.gen_pattern import decoy_operand, describe_inst, describe_operands_grouped, describe_window, lit_ok, substr
from vlib.matcheval import compare, stream_sample
from vlib.runner import Eval

ID = "C03"
LEVEL = "exploration"
CGF_RUNS = {"thorough": 6000}  # coverage-guided stage (vlib/cgf.py): libFuzzer executions per worker, 16 workers
RULE = (
    "Rules are nestings of $or/$and/$and_any_order (depth <= 3 quick, <= 4 thorough; any-order groups <= 4 children) built by describing a "
    "window of a generated listing, at instruction level, at operand level inside one item, and as $or inside a $deref field; decoy alternatives "
    "are vocabulary items or descriptions of other instructions of the same listing; then at most one listing mutator (class drawn first) is "
    "applied. Oracle: reference matcher verdict (bool and all-matches) and validity of every reported span. Non-trivial: the rule contains an "
    "operator and the case is expected-found or a single-mutation near miss; distinct by canonical hash. Extra levels: an operator nested directly in the same operator with the window permuted (an outer sibling between the inner group's instructions), a $deref as child of an operand-level $and/$and_any_order followed by a nested operator."
)
ASSUMPTIONS = [
    "no times, $not or captures in these rules (C02/C04/C05)",
    "reference matcher + hand-written operand table are the trusted base",
    "listings <= 12 instructions; windows <= 5 instructions",
]
LEVELS = ["inst", "inst", "operand", "operand", "deref-or", "or-prefix", "anyorder-dup", "anyorder-varlen", "operand-deref-mix", "operand-deref-mix", "same-op-nested", "operand-or-hexh", "leading-optionals", "mapping-form", "repeated-group"]
MUTATORS = ["none", "none", "none", "insert-copy", "insert-new", "delete", "replace-copy", "swap", "op-permute", "op-replace"]
FLOORS = {"level=inst": 0.12, "level=operand": 0.12, "level=deref-or": 0.08, "level=or-prefix": 0.06, "level=anyorder-dup": 0.06, "level=anyorder-varlen": 0.06, "level=operand-deref-mix": 0.08, "level=same-op-nested": 0.05, "level=operand-or-hexh": 0.04, "level=leading-optionals": 0.04, "level=repeated-group": 0.03, "children-as-mapping": 0.04, "deref-operator-as-mapping": 0.02, "deref-inside-operand-operator": 0.015, "expect=found": 0.25, "near-miss": 0.25, "nested": 0.2}


def budget(tier):
    return {"cases": 5000 if tier == "quick" else 100000}


def _depth(node):
    if isinstance(node, list):
        return max([_depth(x) for x in node] or [0])
    if isinstance(node, dict):
        k = list(node)[0]
        d = _depth(node[k]) if isinstance(node[k], (list, dict)) else 0
        return d + (1 if k in ("$or", "$and", "$and_any_order") else 0)
    return 0


def _ops_used(node, acc):
    if isinstance(node, list):
        for x in node:
            _ops_used(x, acc)
    elif isinstance(node, dict):
        for k, v in node.items():
            if k in ("$or", "$and", "$and_any_order"):
                acc.add(k)
            _ops_used(v, acc)
    return acc


def _names_ok(node, operand=False):
    if isinstance(node, list):
        return all(_names_ok(x, operand) for x in node)
    if isinstance(node, dict):
        for k, v in node.items():
            if k in ("$or", "$and", "$and_any_order"):
                if not _names_ok(v, operand):
                    return False
            elif k in ("$deref", "times"):
                continue
            else:
                if not lit_ok(str(k), operand=False):
                    return False
                if v is not None and not _names_ok(v, True):
                    return False
        return True
    return lit_ok(str(node), operand=operand)


@st.composite
def cases(draw, max_depth=2):
    level = draw(st.sampled_from(LEVELS))
    mut = draw(st.sampled_from(MUTATORS))
    full = (draw(st.booleans()), draw(st.booleans()))
    L = draw(listings(min_len=2, max_len=10))
    n = len(L)
    NV = norm_view(L)
    if level == "inst":
        i = draw(st.integers(0, n - 1))
        j = draw(st.integers(i + 1, min(n, i + 5)))
        pattern = describe_window(draw, NV, i, j, full, allow=frozenset({"$and", "$or", "$and_any_order"}), max_depth=max_depth + 1)
    elif level == "leading-optionals":
        # an alternative (or a group) that BEGINS with children that may match nothing - items with times min 0 whose instruction
        # is absent - followed by the mandatory rest: alternation / sequence / permutation must compose with such children too
        wlen = draw(st.integers(1, min(3, n)))
        i = draw(st.integers(0, n - wlen))
        j = i + wlen
        descs = [describe_inst(draw, NV[k], full) for k in range(i, j)]
        absent = ["endbr64", "zzq", "int3", "hlt", "ud2", "fnop"]
        opts = []
        for nm in draw(st.lists(st.sampled_from(absent), min_size=1, max_size=3, unique=True)):
            t = draw(st.sampled_from([{"min": 0, "max": 1}, {"min": 0, "max": 3}, 0, {"min": 0, "max": 0}]))
            opts.append({nm: {"times": t}} if draw(st.booleans()) else {"$or": [nm, nm + "x"], "times": t})
        # sometimes one of the optional children is present after all (an instruction inserted in front of the window)
        if draw(st.integers(0, 3)) == 0:
            nm = list(opts[-1])[0]
            if not nm.startswith("$") and opts[-1][nm]["times"] not in (0, {"min": 0, "max": 0}):
                L.insert(i, ["0", nm, [], []])
                NV = norm_view(L)
                n = len(L)
                j += 1
        grp = {"$and": opts + descs}
        decoy = describe_inst(draw, NV[draw(st.integers(0, n - 1))], full) if draw(st.booleans()) else "enter"
        alts = [grp, decoy] if draw(st.booleans()) else [decoy, grp]
        how = draw(st.sampled_from(["or", "or", "or-in-anyorder", "plain-and"]))
        if how == "or":
            pattern = [{"$or": alts}]
        elif how == "plain-and":
            pattern = [grp]
        else:
            pattern = [{"$and_any_order": [{"$or": alts}]}]
        if j < n and draw(st.booleans()):
            pattern.append(describe_inst(draw, NV[j], full))
            j += 1
    elif level == "repeated-group":
        # operators compose with repetition: a group with a ranged times whose only child carries an exact times (the reachable run
        # lengths have gaps: $and[x times 2] times 1..2 is two or four x, never three), and an operator macro used twice in one rule,
        # one use repeated - each use stands for the operator by itself
        def body_():
            for _ in range(6):
                m_, oa_, on_ = draw(instruction_body())
                if " " not in "".join(oa_):
                    return [m_, oa_, on_]
            return ["cltq", [], []]

        A_, X_, Y_, B_ = body_(), body_(), body_(), body_()
        assume(len({A_[0], X_[0], Y_[0], B_[0]}) == 4)
        dA_, dX_, dY_, dB_ = (describe_inst(draw, ("0", b_[0], b_[2]), (True, True)) for b_ in (A_, X_, Y_, B_))
        full = (True, True)
        case_macros = None
        ref_pattern = None
        if draw(st.booleans()):
            k_in = draw(st.sampled_from([2, 2, 3]))
            lo_o = draw(st.sampled_from([0, 1, 1]))
            hi_o = lo_o + draw(st.sampled_from([1, 1, 2]))
            inner = {list(dX_)[0]: dX_[list(dX_)[0]], "times": k_in} if isinstance(dX_, dict) else {dX_: {"times": k_in}}
            grp = {draw(st.sampled_from(["$and", "$and", "$and_any_order", "$or"])): [inner], "times": {"min": lo_o, "max": hi_o}}
            total = draw(st.integers(0, k_in * hi_o + 1))
            chunks = [A_] + [X_] * total + [B_]
            pattern = [dA_, grp, dB_]
        else:
            op_body = {"$or": [dX_, dY_]}
            case_macros = [{"name": "@yshift_", "pattern": [op_body]}]
            t_ = draw(st.sampled_from([2, 2, 3, {"min": 1, "max": 2}]))
            inv = {"@yshift_": {"times": t_}} if draw(st.booleans()) else {"@yshift_": [], "times": t_}
            first_plain = draw(st.booleans())
            n1 = 1 if first_plain else draw(st.integers(1, 3))
            n2 = draw(st.integers(1, 3)) if first_plain else 1
            if draw(st.integers(0, 2)) == 0:
                n1, n2 = n2, n1  # the counts the other way round: what a `times` that leaks to the plain use would accept
            chunks = [A_] + [draw(st.sampled_from([X_, Y_])) for _ in range(n1)] + [B_] + [draw(st.sampled_from([X_, Y_])) for _ in range(n2)] + [A_]
            pattern = [dA_] + (["@yshift_", dB_, inv] if first_plain else [inv, dB_, "@yshift_"]) + [dA_]
            import copy as _copy

            rep_ = {"$and": [_copy.deepcopy(op_body)], "times": t_}
            ref_pattern = [dA_] + ([_copy.deepcopy(op_body), dB_, rep_] if first_plain else [rep_, dB_, _copy.deepcopy(op_body)]) + [dA_]
        a_ = 0x401000
        L = []
        for m_, oa_, on_ in chunks:
            L.append([format(a_, "x"), m_, list(oa_), list(on_)])
            a_ += 3
        out_ = {"level": level, "mut": "none", "listing": L, "pattern": pattern, "flags": [True, True]}
        if case_macros:
            out_["macros"] = case_macros
            out_["ref_pattern"] = ref_pattern
        return out_
    elif level == "mapping-form":
        # a window whose items all have an operand list and different names: the children of the sequence (of the whole pattern, of
        # a nested group) can then be written as a YAML mapping - same items, written order
        wlen = draw(st.integers(2, min(4, n)))
        i = draw(st.integers(0, n - wlen))
        j = i + wlen
        descs = []
        for k in range(i, j):
            it = describe_inst(draw, NV[k], full, force_ops=True)
            descs.append(it if isinstance(it, dict) else {it: []})
        assume(len({list(x)[0] for x in descs}) == len(descs))
        how = draw(st.sampled_from(["top", "and", "nested", "or-of-and", "anyorder"]))
        merged = {}
        for x in descs:
            merged.update(x)
        if how == "top":
            pattern = merged
        elif how == "and":
            pattern = [{"$and": merged}]
        elif how == "nested" and wlen >= 3:
            inner = {}
            for x in descs[:2]:
                inner.update(x)
            outer = {"$and": inner}
            for x in descs[2:]:
                outer.update(x)
            pattern = [{"$and": outer}]
        elif how == "anyorder":
            perm = draw(st.permutations(descs))
            merged = {}
            for x in perm:
                merged.update(x)
            pattern = [{"$and_any_order": merged}]
        else:
            pattern = [{"$or": [{"$and": merged}, "zzq"]}]
    elif level == "or-prefix":
        # $or whose alternatives are prefixes of one another, followed by something only one of them leaves room for
        wlen = draw(st.integers(2, min(4, n)))
        i = draw(st.integers(0, n - wlen))
        j = i + wlen
        descs = [describe_inst(draw, NV[k], full) for k in range(i, j)]
        cut = draw(st.integers(2, wlen))
        sh = draw(st.integers(1, cut - 1))
        short = descs[0] if sh == 1 and draw(st.booleans()) else {"$and": descs[:sh]}
        long_ = {"$and": descs[:cut]}
        alts = [short, long_] if draw(st.booleans()) else [long_, short]
        if draw(st.booleans()):
            alts.insert(draw(st.integers(0, 2)), describe_inst(draw, NV[draw(st.integers(0, n - 1))], full))
        pattern = [{"$or": alts}] + descs[cut:]
        if draw(st.booleans()) and len(pattern) > 1:
            pattern = [{draw(st.sampled_from(["$and", "$and_any_order"])): pattern}]
    elif level == "anyorder-varlen":
        # an any-order group with a child that can match runs of different lengths, followed by more pattern
        wlen = draw(st.integers(3, min(5, n))) if n >= 3 else n
        i = draw(st.integers(0, n - wlen))
        j = i + wlen
        descs = [describe_inst(draw, NV[k], full) for k in range(i, j)]
        if wlen >= 3:
            glen = draw(st.integers(2, wlen - 1))          # instructions consumed by the group
            first = draw(st.integers(1, glen - 1))          # ... of which the fixed children take `first`
            var = descs[first:glen]
            sh = draw(st.integers(1, len(var)))
            short = var[0] if sh == 1 and draw(st.booleans()) else {"$and": var[:sh]}
            long_ = {"$and": var} if len(var) > 1 else var[0]
            # the engine must be able to come back and take the longer/shorter alternative
            longer_than_fits = {"$and": var + descs[glen:glen + 1]} if glen < wlen else long_
            alts = draw(st.permutations([short, long_, longer_than_fits][: draw(st.integers(2, 3))]))
            kids = descs[:first] + [{"$or": list(alts)}]
            pattern = [{"$and_any_order": list(draw(st.permutations(kids)))}] + descs[glen:]
        else:
            pattern = descs
    elif level == "operand-deref-mix":
        # a $deref operand and an operand-level operator in the same instruction
        cands = [(k, q) for k in range(n) for q, o in enumerate(NV[k][2]) if parse_norm_mem(o) and len(NV[k][2]) >= 2]
        if not cands:
            L.insert(0, ["0", "mov", ["0x10(%rbx,%rax,4)", "%rcx", "%rdx"], ["[%rbx+%rax*4+0x10]", "%rcx", "%rdx"]])
            NV = norm_view(L)
            n = len(L)
            cands = [(0, 0)]
        k, q = draw(st.sampled_from(cands))
        i, j = k, k + 1
        ops = NV[k][2]
        comp = parse_norm_mem(ops[q])
        keymap = {"a": "main_reg", "b": "register_multiplier", "c": "constant_multiplier", "k": "constant_offset"}
        deref = {"$deref": {keymap[ck]: v for ck, v in comp.items()}}
        from vlib.gen_pattern import describe_operand as _dop

        pats = []
        ok = True
        for z, o in enumerate(ops):
            if z == q:
                pats.append(deref)
                continue
            d = _dop(draw, o, full[1])
            if d is None:
                ok = False
                break
            wrap = draw(st.sampled_from(["plain", "$or", "$and", "$and_any_order"]))
            if wrap == "$or":
                d = {"$or": [d, decoy_operand(draw)] if draw(st.booleans()) else [decoy_operand(draw), d]}
            elif wrap in ("$and", "$and_any_order"):
                d = {wrap: [d]}
            pats.append(d)
            if draw(st.integers(0, 3)) == 0:
                break
        assume(ok)
        name = NV[k][1] if full[0] else substr(draw, NV[k][1])
        if draw(st.integers(0, 3)) == 0:
            pats = [{"$or": [deref, "zzz"]}] + pats[1:] if q == 0 else pats
        elif q + 1 < len(pats) and draw(st.integers(0, 2)) == 0:
            # the $deref is itself a child of an operand-level operator, followed there by another (possibly nested) operator
            grp = draw(st.sampled_from(["$and", "$and", "$and_any_order"]))
            nxt = pats[q + 1]
            if not isinstance(nxt, dict):
                nxt = {"$or": [nxt, decoy_operand(draw)] if draw(st.booleans()) else [decoy_operand(draw), nxt]}
            kids = [deref, nxt]
            if grp == "$and_any_order" and draw(st.booleans()):
                kids = [nxt, deref]
            pats = pats[:q] + [{grp: kids}] + pats[q + 2:]
        pattern = [{name: pats}]
    elif level == "same-op-nested":
        # an operator nested DIRECTLY in the same operator: harmless to flatten for $or and $and, not for $and_any_order
        # (any_order[a, any_order[b, c]] must keep b and c adjacent); the window is permuted so that an outer sibling
        # may land between the inner group's instructions
        wlen = draw(st.integers(3, min(4, n))) if n >= 3 else n
        i = draw(st.integers(0, n - wlen))
        j = i + wlen
        descs = [describe_inst(draw, NV[k], full) for k in range(i, j)]
        op = draw(st.sampled_from(["$and_any_order", "$and_any_order", "$and_any_order", "$and", "$or"]))
        if wlen >= 3:
            p0 = draw(st.integers(0, wlen - 2))
            inner_kids = descs[p0:p0 + 2]
            # inside $and_any_order the inner group may also be an explicit $and (a unit that keeps its own order)
            inner_op = "$and" if op == "$and_any_order" and draw(st.integers(0, 2)) == 0 else op
            outer_kids = descs[:p0] + [{inner_op: list(draw(st.permutations(inner_kids))) if inner_op != "$and" else inner_kids}] + descs[p0 + 2:]
            if op == "$and_any_order":
                pattern = [{op: list(draw(st.permutations(outer_kids)))}]
                perm = list(draw(st.permutations(list(range(i, j)))))
                if draw(st.booleans()):
                    # put an outer sibling between the two instructions of the inner group
                    outer_idx = [x for x in range(i, j) if not (i + p0 <= x < i + p0 + 2)]
                    mid = draw(st.sampled_from(outer_idx))
                    rest = [x for x in outer_idx if x != mid]
                    perm = rest[: len(rest) // 2] + [i + p0, mid, i + p0 + 1] + rest[len(rest) // 2:]
                    if draw(st.booleans()):
                        perm = list(reversed(perm))
                elif inner_op == "$and" and draw(st.booleans()):
                    # the inner pair stays adjacent but in the other order: fine for any-order children, not for an $and
                    a_, b_ = perm.index(i + p0), perm.index(i + p0 + 1)
                    perm[a_], perm[b_] = perm[b_], perm[a_]
                window = [[L[x][0], L[x][1], list(L[x][2]), list(L[x][3])] for x in perm]
                L[i:j] = window
                NV = norm_view(L)
            elif op == "$and":
                pattern = [{"$and": outer_kids}]
            else:
                # $or directly in $or: the window shrinks to one instruction described by some alternative
                alts = [descs[0], {"$or": [descs[1], descs[2]]}]
                pattern = [{"$or": list(draw(st.permutations(alts)))}]
        else:
            pattern = descs
    elif level == "anyorder-dup":
        # $and_any_order with children that are equal (each child must still be used exactly once)
        wlen = draw(st.integers(2, min(4, n)))
        i = draw(st.integers(0, n - wlen))
        j = i + wlen
        descs = [describe_inst(draw, NV[k], full) for k in range(i, j)]
        if len(descs) >= 2:
            a_, b_ = draw(st.integers(0, len(descs) - 1)), draw(st.integers(0, len(descs) - 1))
            descs[b_] = descs[a_]
            if draw(st.booleans()):
                L[i + b_] = [L[i + b_][0], L[i + a_][1], list(L[i + a_][2]), list(L[i + a_][3])]
                NV = norm_view(L)
        pattern = [{"$and_any_order": list(draw(st.permutations(descs)))}]
        if draw(st.booleans()) and j < n:
            pattern.append(describe_inst(draw, NV[j], full))
            j += 1
    elif level == "operand":
        cands = [k for k in range(n) if len(NV[k][2]) >= 2 and " " not in "".join(L[k][2])]
        if not cands:
            m, oa, on = "mov", ["%rax", "$0x1", "%r8d"], ["%rax", "0x1", "%r8d"]
            L.insert(0, ["0", m, oa, on])
            NV = norm_view(L)
            n = len(L)
            cands = [0]
        k = draw(st.sampled_from(cands))
        i, j = k, k + 1
        got = describe_operands_grouped(draw, NV[k][2], full[1], max_depth=max_depth)
        name = NV[k][1] if full[0] else substr(draw, NV[k][1])
        pats = got[0]
        pattern = [{name: pats}] if pats else [name]
        # optionally surround by neighbours
        if k > 0 and draw(st.booleans()):
            pattern.insert(0, describe_inst(draw, NV[k - 1], full))
            i = k - 1
        if k + 1 < n and draw(st.booleans()):
            pattern.append(describe_inst(draw, NV[k + 1], full))
            j = k + 2
    elif level == "operand-or-hexh":
        # operand-level $or of neighbouring plain alternatives, some written `NNh` (= 0xNN): the spelling must mean inside an
        # alternative what it means as a lone operand
        import re as _re

        cands = [(k, q) for k in range(n) for q, o in enumerate(NV[k][2]) if _re.fullmatch(r"0x[0-9a-f]{1,8}", o)]
        if not cands:
            L.insert(0, ["0", "mov", ["$0x10", "%eax"], ["0x10", "%eax"]])
            NV = norm_view(L)
            n = len(L)
            cands = [(0, 0)]
        k, q = draw(st.sampled_from(cands))
        i, j = k, k + 1
        val = NV[k][2][q][2:]
        good = val + "h" if draw(st.integers(0, 2)) else "0x" + val
        decoys = [d for d in draw(st.lists(st.sampled_from(["20h", "0x30", "7fh", "zz", "rbx", "1h", "10h", "0h", "ffh"]), min_size=1, max_size=3, unique=True)) if d.rstrip("h") != val and d != "0x" + val]
        alts = list(decoys)
        if draw(st.integers(0, 5)):
            alts.insert(draw(st.integers(0, len(alts))), good)
        pre = []
        for o in NV[k][2][:q]:
            from vlib.gen_pattern import describe_operand

            s_ = describe_operand(draw, o, full[1])
            assume(s_ is not None)
            pre.append(s_)
        name = NV[k][1] if full[0] else substr(draw, NV[k][1])
        assume(alts)
        pattern = [{name: pre + [{"$or": alts}]}]
        if k + 1 < n and draw(st.booleans()):
            pattern.append(describe_inst(draw, NV[k + 1], full))
            j = k + 2
    else:  # deref-or
        cands = [(k, q) for k in range(n) for q, o in enumerate(NV[k][2]) if parse_norm_mem(o)]
        if not cands:
            L.insert(0, ["0", "mov", ["0x10(%rbx,%rax,4)", "%rcx"], ["[%rbx+%rax*4+0x10]", "%rcx"]])
            NV = norm_view(L)
            n = len(L)
            cands = [(0, 0)]
        k, q = draw(st.sampled_from(cands))
        i, j = k, k + 1
        comp = parse_norm_mem(NV[k][2][q])
        keymap = {"a": "main_reg", "b": "register_multiplier", "c": "constant_multiplier", "k": "constant_offset"}
        fields = {}
        for ck, fk in keymap.items():
            if ck in comp:
                v = comp[ck]
                if ck in ("a", "b") and draw(st.booleans()):
                    v = v.lstrip("%")
                if ck in ("c", "k") and v.startswith("0x") and draw(st.booleans()):
                    v = v[2:]
                fields[fk] = v
        which = draw(st.sampled_from(sorted(fields)))
        good = fields[which]
        if which in ("main_reg", "register_multiplier"):
            decoys = draw(st.lists(st.sampled_from(["rsp", "%rbp", "rb", "rbx", "%rax", "rax", "r8", "%r8d", "rip"]), max_size=2))
        else:
            decoys = draw(st.lists(st.sampled_from(["0x8", "8", "1", "10", "0x10", "4", "0x0", "0x18", "-8", "-0x10", "-1"]), max_size=2))
            if str(good).startswith("-0x") and draw(st.booleans()):
                good = "-" + str(good)[3:]  # a negative constant may be written without 0x inside an alternative as well
        alts = list(decoys)
        alts.insert(draw(st.integers(0, len(alts))), good)
        # the operator as one-element list (`main_reg:` / `  - $or: [...]`) or as the value itself (`main_reg:` / `  $or: [...]`, F36)
        as_mapping = draw(st.booleans())
        fields[which] = {"$or": alts} if as_mapping else [{"$or": alts}]
        pre = []
        for o in NV[k][2][:q]:
            from vlib.gen_pattern import describe_operand

            s = describe_operand(draw, o, full[1])
            assume(s is not None)
            pre.append(s)
        name = NV[k][1] if full[0] else substr(draw, NV[k][1])
        pattern = [{name: pre + [{"$deref": fields}]}]

    # ---- one listing mutator
    def renumber():
        a = int(L[0][0], 16) if L else 0
        for rec in L:
            rec[0] = format(a, "x")
            a += draw(st.integers(1, 7))

    if mut == "insert-copy":
        src = draw(st.integers(0, len(L) - 1))
        pos = draw(st.integers(i, j))
        L.insert(pos, [L[src][0], L[src][1], list(L[src][2]), list(L[src][3])])
    elif mut == "insert-new":
        m, oa, on = draw(instruction_body())
        L.insert(draw(st.integers(i, j)), ["0", m, oa, on])
    elif mut == "delete" and len(L) > 1:
        del L[draw(st.integers(i, j - 1))]
    elif mut == "replace-copy":
        src = draw(st.integers(max(0, i - 1), min(len(L) - 1, j)))
        dst = draw(st.integers(i, j - 1))
        L[dst] = [L[dst][0], L[src][1], list(L[src][2]), list(L[src][3])]
    elif mut == "swap" and len(L) >= 2:
        k2 = draw(st.integers(max(0, i - 1), min(len(L) - 2, j - 1)))
        L[k2], L[k2 + 1] = L[k2 + 1], L[k2]
    elif mut == "op-permute":
        k2 = draw(st.integers(i, j - 1))
        if len(L[k2][2]) >= 2 and " " not in "".join(L[k2][2]):
            perm = draw(st.permutations(list(range(len(L[k2][2])))))
            L[k2][2] = [L[k2][2][x] for x in perm]
            L[k2][3] = [L[k2][3][x] for x in perm]
    elif mut == "op-replace":
        k2 = draw(st.integers(i, j - 1))
        if L[k2][2] and " " not in "".join(L[k2][2]):
            q2 = draw(st.integers(0, len(L[k2][2]) - 1))
            o = draw(st.sampled_from(OPERANDS))
            L[k2][2][q2], L[k2][3][q2] = o[0], o[1]
    renumber()
    if level == "operand-or-hexh":
        # the NNh alternatives are reserved syntax, not literal names: check everything but them
        head = pattern[0]
        hn = list(head)[0]
        assume(_names_ok([{hn: head[hn][:-1]} if head[hn][:-1] else hn] + pattern[1:]))
    else:
        assume(_names_ok(pattern))
    if level in ("inst", "or-prefix", "same-op-nested", "anyorder-dup") and draw(st.integers(0, 2)) == 0:
        # the children of a group (or of the whole pattern) written as a YAML mapping instead of a list of one-key items: accepted
        # spelling, same items in the written order
        pattern = _as_mapping(draw, pattern, top=True)
    return {"level": level, "mut": mut, "listing": L, "pattern": pattern, "flags": list(full)}


def _as_mapping(draw, node, top=False):
    """Rewrite lists of children into mappings where the spelling is possible: every child a one-key item with an operand list (or a
    nested operator without times), all keys different."""
    if isinstance(node, list):
        kids = [_as_mapping(draw, x) for x in node]
        ok = len(kids) >= 2 and all(isinstance(x, dict) and len(x) == 1 and isinstance(list(x.values())[0], (list, dict)) and "$deref" not in x for x in kids)
        ok = ok and len({list(x)[0] for x in kids}) == len(kids)
        ok = ok and not any(isinstance(v, dict) and "times" in v for x in kids for v in x.values())
        if ok and (top or True) and draw(st.booleans()):
            out = {}
            for x in kids:
                out.update(x)
            return out
        return kids
    if isinstance(node, dict):
        out = {}
        for k, v in node.items():
            if k in ("$and", "$or", "$and_any_order") and isinstance(v, list):
                out[k] = _as_mapping(draw, v)
            else:
                out[k] = v
        return out
    return node


def _has_mapping_children(node):
    if isinstance(node, list):
        return any(_has_mapping_children(x) for x in node)
    if isinstance(node, dict):
        for k, v in node.items():
            if k in ("$and", "$or", "$and_any_order") and isinstance(v, dict):
                return True
            if isinstance(v, (list, dict)) and k != "$deref" and _has_mapping_children(v):
                return True
    return False


def strategy(tier):
    return cases(max_depth=2 if tier == "quick" else 3)


WIDE = ["push", "mov", "movzx", "add", "sub", "xor", "pop"]


def wide_cases():
    """$and_any_order with 7 children (5040 orderings, ~10 s to compile): too dear for the random campaign, so a fixed handful.
    Two of the names are substring-related (mov / movzx): under default matching one `movzx` instruction may stand for either
    child but never for both - 'each child exactly once' is what a per-child lookahead over a window would lose."""
    def listing(ms):
        return [[format(0x401000 + 4 * q, "x"), m, [], []] for q, m in enumerate(ms)]

    out = []
    for tag, ms, kids, flags in [
        ("all-present-permuted", ["nop", "xor", "movzx", "push", "sub", "mov", "pop", "add", "ret"], WIDE, [False, False]),
        ("one-child-missing", ["push", "movzx", "nop", "add", "sub", "xor", "pop", "ret"], WIDE, [False, False]),
        ("longer-name-twice", ["push", "movzx", "movzx", "add", "sub", "xor", "pop"], WIDE, [False, False]),
        ("longer-name-twice-full", ["push", "movzx", "movzx", "add", "sub", "xor", "pop"], WIDE, [True, False]),
        ("duplicate-child-once-present", ["push", "mov", "nop", "add", "sub", "xor", "pop"], ["push", "mov", "add", "add", "sub", "xor", "pop"], [False, False]),
        ("offset-window-then-item", ["pop", "pop", "xor", "sub", "add", "movzx", "mov", "push", "ret"], WIDE, [False, False]),
    ]:
        pattern = [{"$and_any_order": list(kids)}] + (["ret"] if tag == "offset-window-then-item" else [])
        out.append({"level": "anyorder-wide", "mut": "none", "wide": tag, "listing": listing(ms), "pattern": pattern, "flags": flags})
    return out


def _wide_worker(case):
    return case, evaluate(case)


def extra(tier, seed, rep):
    import multiprocessing as mp

    cs = wide_cases()
    with mp.get_context("fork").Pool(len(cs), maxtasksperchild=1) as pool:
        for case, ev in pool.imap_unordered(_wide_worker, cs, chunksize=1):
            rep.add_eval(case, ev)
    rep.exhaustive_parts.append(f"{len(cs)} fixed 7-child $and_any_order cases (substring-related names, missing / doubled child)")


def evaluate(case):
    ev = Eval()
    ev.subcases = 0
    L, pattern = case["listing"], case["pattern"]
    mn_full, op_full = case["flags"]
    extra_kw = {"modes": ("list",)} if case.get("wide") else {}
    if case.get("macros"):
        # the rule uses macros defined in its own file: judged by the reference on the rule with every use written out by hand
        from vlib.gen_listing import norm_view as _nv
        from vlib.refmatch import Ref as _Ref

        extra_kw.update(doc_macros=case["macros"], spans=_Ref(_nv(L), bool(mn_full), bool(op_full)).spans(case["ref_pattern"]))
    exp, spans, _ = compare(ev, pattern, L, mn_full, op_full, **extra_kw)
    used = _ops_used(pattern, set())
    depth = _depth(pattern)
    ev.tags = [f"level={case['level']}", f"mut={case['mut']}", "expect=found" if exp else "expect=notfound"]
    ev.tags += [f"op={u}" for u in sorted(used)]
    if depth >= 2:
        ev.tags.append("nested")
    if isinstance(pattern, dict) or _has_mapping_children(pattern):
        ev.tags.append("children-as-mapping")
    if any(isinstance(f_, dict) for it in (pattern if isinstance(pattern, list) else []) if isinstance(it, dict) for p_ in (it[list(it)[0]] or []) if isinstance(p_, dict) and "$deref" in p_
           for f_ in p_["$deref"].values()):
        ev.tags.append("deref-operator-as-mapping")
    if case["level"] == "operand-deref-mix" and any(isinstance(p_, dict) and list(p_)[0] in ("$and", "$and_any_order") and any(isinstance(c_, dict) and "$deref" in c_ for c_ in p_[list(p_)[0]])
                                                    for it in pattern if isinstance(it, dict) for p_ in (it[list(it)[0]] or [])):
        ev.tags.append("deref-inside-operand-operator")
    if case.get("wide"):
        ev.tags.append("wide=" + case["wide"])
    near = case["mut"] != "none" or bool(case.get("wide"))
    if near:
        ev.tags.append("near-miss")
    ev.nontrivial = bool(used) and (exp or near)
    ev.sample = {"level": case["level"], "mut": case["mut"], "flags": case["flags"], "pattern": pattern, "stream": stream_sample(L), "expected_found": exp}
    return ev
