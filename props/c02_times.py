"""C02 - repetition bounds (`times`) are honoured exactly."""
import copy

from hypothesis import assume, strategies as st

from vlib import jasm_io
from vlib.gen_listing import att_view, instruction_body, listings, norm_view, parse_norm_mem
from vlib.gen_pattern import describe_inst, describe_operand, describe_window, lit_ok, listing_decoy
from vlib.matcheval import compare, stream_sample
from vlib.render import render
from vlib.runner import Eval

ID = "C02"
LEVEL = "exploration"
CGF_RUNS = {"thorough": 6000}  # coverage-guided stage (vlib/cgf.py): libFuzzer executions per worker, 16 workers
RULE = (
    "Three case shapes (drawn first): 'sandwich' rules A, X<times>, B on listings A X^r B with r drawn around both bounds "
    "(min-1, min, max, max+1, random); 'free' rules from the describe-a-window generator with times on items and groups; 'meta' pairs "
    "(X times n  vs  X written n times; {min:n,max:n} vs n; the two YAML spellings of an operand-less item; times on operand-level $deref/$or) whose "
    "all-matches lists must be identical. X ranges over item, item+operands, $and, $or, $not, $and_any_order; bounds 0 <= min <= max <= 6, and in a sixth of the sandwich cases two- and three-digit bounds (7..101, ranges up to 90 wide) with runs of that length, and in one in twenty-five ranges whose upper bound is 999..1002 with runs of hi-1 / hi / hi+1 repetitions. "
    "Oracle: reference matcher (verdict + span validity) for sandwich/free, list equality for meta. Non-trivial: times != 1 and (r within one of a "
    "bound, or a meta pair with >= 1 match, or expected-found); distinct by canonical hash."
)
ASSUMPTIONS = [
    "repeated items/groups contain no capture definition (C05)",
    "times given as an integer or as a full {min,max} pair; min-only / max-only spellings are not asserted (defaults are not part of the statement)",
    "operand-level times is judged by the metamorphic relation only",
]
BIG_KINDS = ("item", "item-ops", "$and", "$or", "$not", "$and_any_order")
KINDS = ["item", "item-ops", "$and", "$or", "$not", "$and_any_order", "nested-times", "nested-times", "capture-ref", "nested-times-gap", "nested-times-gap", "or-with-not"]
SHAPES = ["sandwich", "sandwich", "sandwich", "free", "meta", "meta"]
FLOORS = {"shape=sandwich": 0.3, "shape=meta": 0.2, "edge=min": 0.035, "edge=max": 0.035, "edge=max+1": 0.028, "edge=min-1": 0.02, "rel=macro-plain-use": 0.009, "rel=macro-times-use": 0.006, "rel=operand-regcapture-ref": 0.005, "rel=operand-plain": 0.004, "kind=capture-user-range": 0.03, "bounds=capture-user-wider-than-64": 0.008, "bounds=multi-digit": 0.03, "bounds=around-1000": 0.004, "spelling=sibling-null": 0.04}
for _k in KINDS:
    FLOORS[f"kind={_k}"] = 0.04


def budget(tier):
    return {"cases": 5000 if tier == "quick" else 100000}


def fresh(draw, avoid=()):
    for _ in range(5):
        m, oa, on = draw(instruction_body())
        if m not in avoid and " " not in "".join(oa):
            return [m, oa, on]
    return ["cltq", [], []]


def times_value(draw, lo, hi, form):
    if form == "int":
        return lo
    return {"min": lo, "max": hi}


def attach(node, t, spelling):
    """spelling: 'inside' ({m: {times: t}}), 'sibling' ({m: [...], times: t}), 'sibling-first' ({times: t, m: [...]}: a YAML
    mapping has no order, the sibling key may just as well be written first), 'sibling-null' ({m: null, times: t}: an operand-less item
    whose key has no value; for everything else the same as 'sibling')."""
    if isinstance(node, (str, int)):
        if spelling == "inside":
            return {node: {"times": t}}
        if spelling == "sibling-null":
            return {node: None, "times": t}  # `- nop:` / `  times: 3`: the item key without a value (F35)
        return {"times": t, node: []} if spelling == "sibling-first" else {node: [], "times": t}
    if spelling == "sibling-first":
        d = {"times": t}
        d.update(node)
        return d
    if spelling == "inside":
        # a group whose children can be written as a YAML mapping (one-key items with an operand list, different names) takes its
        # times inside the body like an item does: $or: {nop: [], xor: [], times: 3} (F40)
        op = list(node)[0]
        kids = node[op]
        if op in ("$and", "$or", "$and_any_order") and isinstance(kids, list) and len(node) == 1:
            norm = [k if isinstance(k, dict) else {k: []} for k in kids]
            if all(len(k) == 1 and isinstance(list(k.values())[0], list) and not str(list(k)[0]).startswith(("$", "&", "@")) for k in norm) and len({list(k)[0] for k in norm}) == len(norm):
                body = {}
                for k in norm:
                    body.update(k)
                body["times"] = t
                return {op: body}
    d = dict(node)
    d["times"] = t
    return d


@st.composite
def build_x(draw, kind, full=(False, False)):
    """-> (node without times, list of alternative instance generators)  instance = list of [m, oa, on]."""
    if kind in ("item", "item-ops"):
        b = fresh(draw)
        if kind == "item-ops" and not b[1]:
            b = ["mov", ["%rax", "$0x10"], ["%rax", "0x10"]]
        node = describe_inst(draw, ("0", b[0], b[2]), full, force_ops=(kind == "item-ops"))
        if kind == "item" and isinstance(node, dict):
            node = list(node)[0]
        if kind == "item-ops" and not isinstance(node, dict):
            s = describe_operand(draw, b[2][0], full[1])
            node = {node: [s if s is not None else "a"]}
        return node, [[b]]
    if kind == "nested-times-gap":
        return None, [[fresh(draw)]]
    if kind == "capture-ref":
        # the repeated item is a REFERENCE to an instruction capture defined just before it (no definition inside the repetition):
        # [A, &c, &c{t}, B] on A X X^r B
        return "&yc", [[fresh(draw)]]
    if kind == "nested-times":
        # a repeated group whose single child is itself repeated: the bounds do not multiply into one quantifier
        # ($and[nop times 2] times {1,2} is 2 or 4 nops, never 3)
        b = fresh(draw)
        inner = describe_inst(draw, ("0", b[0], b[2]), full)
        lo_in = draw(st.sampled_from([1, 2, 2, 3]))
        hi_in = lo_in if draw(st.integers(0, 2)) else lo_in + 1  # mostly an exact inner count: totals between its multiples are gaps
        t_in = lo_in if lo_in == hi_in and draw(st.booleans()) else {"min": lo_in, "max": hi_in}
        child = attach(inner, t_in, "inside" if isinstance(inner, (str, int)) else "sibling")
        node = {draw(st.sampled_from(["$and", "$or"])): [child]}
        return node, [[b] * c for c in range(lo_in, hi_in + 1)]
    if kind == "$and":
        bs = [fresh(draw) for _ in range(draw(st.integers(1, 3)))]
        node = {"$and": [describe_inst(draw, ("0", b[0], b[2]), full) for b in bs]}
        return node, [bs]
    if kind == "$or":
        bs = [fresh(draw) for _ in range(draw(st.integers(1, 3)))]
        alts = []
        insts = []
        for b in bs:
            if draw(st.booleans()):
                b2 = fresh(draw)
                alts.append({"$and": [describe_inst(draw, ("0", b[0], b[2]), full), describe_inst(draw, ("0", b2[0], b2[2]), full)]})
                insts.append([b, b2])
            else:
                alts.append(describe_inst(draw, ("0", b[0], b[2]), full))
                insts.append([b])
        return {"$or": alts}, insts
    if kind == "or-with-not":
        # alternatives that consume different numbers of instructions although they look alike: a $not always consumes ONE
        # instruction, however many its argument spans.  $or[$not[$and[x, y]], $and[x, x]] on a run of x: a repetition takes one x
        # (through the $not) or two - the run only works out if the engine may come back and take the other alternative
        x = fresh(draw)
        y = fresh(draw, avoid=(x[0],))
        dx, dy = describe_inst(draw, ("0", x[0], x[2]), (True, True)), describe_inst(draw, ("0", y[0], y[2]), (True, True))
        width = draw(st.sampled_from([2, 2, 3]))
        alts = [{"$not": [{"$and": [dx] * (width - 1) + [dy]}]}, {"$and": [dx] * width}]
        if draw(st.booleans()):
            alts.reverse()
        return {"$or": alts}, [[x], [x] * width]
    if kind == "$not":
        decoy = fresh(draw)
        node = {"$not": [describe_inst(draw, ("0", decoy[0], decoy[2]), full)]}
        others = [fresh(draw, avoid=(decoy[0],)) for _ in range(2)]
        return node, [[o] for o in others] + [[decoy]]
    if kind == "$and_any_order":
        bs = [fresh(draw) for _ in range(draw(st.integers(1, 3)))]
        node = {"$and_any_order": [describe_inst(draw, ("0", b[0], b[2]), full) for b in bs]}
        import itertools

        return node, [list(p) for p in itertools.permutations(bs)]
    raise AssertionError(kind)


def _mk_listing(draw, chunks):
    a = draw(st.sampled_from([0x0, 0x400, 0x401000, 0xadd0]))
    L = []
    for m, oa, on in chunks:
        L.append([format(a, "x"), m, list(oa), list(on)])
        a += draw(st.integers(1, 7))
    return L


@st.composite
def cases(draw):
    shape = draw(st.sampled_from(SHAPES))
    kind = draw(st.sampled_from(KINDS))
    form = draw(st.sampled_from(["int", "range", "range"]))
    lo = draw(st.integers(0, 4))
    hi = lo if form == "int" else draw(st.integers(lo, min(6, lo + 3)))
    big = shape == "sandwich" and kind in BIG_KINDS and draw(st.integers(0, 5)) == 0
    if big:
        # bounds written with two or three digits (the statement has no upper limit): 9/10/11 and 99/100/101 are where a bound that is
        # handled digit-wise, or capped, first shows
        lo = draw(st.sampled_from([7, 9, 10, 11, 12, 19, 20, 31, 32, 64, 99, 100, 101]))
        hi = lo if form == "int" else lo + draw(st.sampled_from([0, 1, 2, 9, 10, 90]))
    # (no alternation inside the repeated node: a thousand repetitions of a choice make a failing search exponential - a time limit,
    # not a verdict)
    huge = shape == "sandwich" and kind in ("item", "item-ops", "$and", "$not") and not big and draw(st.integers(0, 7)) == 0
    if huge:
        # a range whose upper bound lies at / beyond 1000 (the value JASM uses elsewhere as 'no limit'), with runs of that length
        form = "range"
        lo = draw(st.sampled_from([0, 1, 2, 990]))
        hi = draw(st.sampled_from([999, 1000, 1000, 1001, 1002]))
    t = times_value(draw, lo, hi, form)
    spelling = draw(st.sampled_from(["inside", "sibling", "sibling-first", "sibling-null"]))
    full = draw(st.sampled_from([(False, False), (False, False), (True, False), (False, True), (True, True)]))
    if huge:
        # whole names under both full-match flags: a substring name can sit at several places of one field, and a thousand repetitions
        # of that choice make a failing search exponential (a time limit, not a verdict)
        full = (True, True)
    if shape == "free":
        L = draw(listings(min_len=2, max_len=12))
        NV = norm_view(L)
        n = len(L)
        i = draw(st.integers(0, n - 1))
        j = draw(st.integers(i + 1, min(n, i + 6)))
        pattern = describe_window(draw, NV, i, j, full, allow=frozenset({"times", "gtimes", "$or", "$and"}), max_depth=2)
        assume(_names_ok(pattern))
        return {"shape": shape, "kind": "free", "listing": L, "pattern": pattern, "edge": "free", "flags": list(full)}
    node, inst_alts = draw(build_x(kind, full))
    xs = [b[0] for alt in inst_alts for b in alt]
    A = fresh(draw, avoid=xs)
    B = fresh(draw, avoid=xs + [A[0]])
    edge = draw(st.sampled_from(["min-1", "min", "max", "max+1", "random", "inside"]))
    r = {"min-1": lo - 1, "min": lo, "max": hi, "max+1": hi + 1, "random": draw(st.integers(0, 7)), "inside": draw(st.integers(lo, hi))}[edge]
    r = max(0, r)
    body = []
    usable = inst_alts if kind != "$not" else inst_alts[:-1]
    if huge:
        edge = draw(st.sampled_from(["max", "max", "max+1", "max+1", "inside", "min"]))
        r = {"max": hi, "max+1": hi + 1, "inside": draw(st.sampled_from([hi - 1, 1000, 1001, max(lo, 1)])), "min": lo}[edge]
        r = max(0, min(r, hi + 1))
        one = draw(st.sampled_from(usable))
        body = [list(x) for x in one] * r  # one instance repeated: a thousand separate draws would not fit a test case
    else:
        for _ in range(r):
            body.extend(draw(st.sampled_from(usable)))
    if kind == "$not" and r > 0 and draw(st.integers(0, 3)) == 0:
        # one repetition is the forbidden instruction itself
        body[draw(st.integers(0, len(body) - 1))] = inst_alts[-1][0]
    ext = "none"
    if kind == "nested-times" and body and draw(st.booleans()):
        # one inner instruction too few / too many: the total is no longer a sum of whole repetitions
        if draw(st.booleans()):
            del body[draw(st.integers(0, len(body) - 1))]
        else:
            body.insert(0, body[0])
        ext = "inner-count"
    elif body and draw(st.integers(0, 3)) == 0:
        # one repetition differs from the described instruction only by a longer mnemonic / operand (matters under the full-match flags)
        q = draw(st.integers(0, len(body) - 1))
        b = body[q]
        if draw(st.booleans()) or not b[1]:
            body[q] = [b[0] + draw(st.sampled_from(["l", "q", "x"])), b[1], b[2]]
            ext = "mnemonic"
        else:
            z = draw(st.integers(0, len(b[1]) - 1))
            oa, on = list(b[1]), list(b[2])
            if on[z].startswith("%") or on[z].startswith("0x"):
                oa[z], on[z] = oa[z] + "0", on[z] + "0"
                ext = "operand"
            body[q] = [b[0], oa, on]
    pre = [fresh(draw) for _ in range(draw(st.integers(0, 2)))]
    post = [fresh(draw) for _ in range(draw(st.integers(0, 2)))]
    L = _mk_listing(draw, pre + [A] + body + [B] + post)
    dA = describe_inst(draw, ("0", A[0], A[2]), full)
    dB = describe_inst(draw, ("0", B[0], B[2]), full)
    if shape == "sandwich" and kind in ("item", "item-ops") and inst_alts and draw(st.integers(0, 3)) == 0:
        # the instruction after the run is one that the run's own description fits as well (same instruction with a longer
        # mnemonic, described by that longer mnemonic): a run that may still grow has to leave it to the next item
        xb = inst_alts[0][0]
        Bx = [xb[0] + draw(st.sampled_from(["q", "zbl", "l"])), list(xb[1]), list(xb[2])]
        k_b = L.index(next(rec for rec in L if rec[1] == B[0] and rec[2] == list(B[1]))) if any(rec[1] == B[0] and rec[2] == list(B[1]) for rec in L) else None
        if k_b is not None:
            L[k_b] = [L[k_b][0], Bx[0], Bx[1], Bx[2]]
            dB = Bx[0] if not Bx[2] or draw(st.booleans()) else describe_inst(draw, ("0", Bx[0], Bx[2]), (True, full[1]))
            ext = ext + "+overlapping-next" if ext != "none" else "overlapping-next"
    if kind == "nested-times-gap":
        # both levels ranged: inner {a, a+1}, outer {c, d}.  The totals that are sums of c..d whole inner runs leave gaps (inner {2,3},
        # outer {0,1}: 0, 2, 3 - a single instruction is not a run); half of the listings sit in a gap
        x_ = inst_alts[0][0]
        a_ = draw(st.sampled_from([2, 3, 4]))
        c_ = draw(st.sampled_from([0, 0, 0, 1]))
        d_ = c_ + draw(st.sampled_from([1, 1, 2]))
        ok_totals = {0} if c_ == 0 else set()
        reach = {0}
        for reps in range(1, d_ + 1):
            reach = {t_ + k_ for t_ in reach for k_ in (a_, a_ + 1)}
            if reps >= c_:
                ok_totals |= reach
        universe = list(range(0, d_ * (a_ + 1) + 2))
        gaps = [t_ for t_ in universe if t_ not in ok_totals]
        total = draw(st.sampled_from(gaps)) if gaps and draw(st.booleans()) else draw(st.sampled_from(sorted(ok_totals)))
        inner = describe_inst(draw, ("0", x_[0], x_[2]), full)
        child = attach(inner, {"min": a_, "max": a_ + 1}, "inside" if isinstance(inner, (str, int)) else "sibling")
        group = {draw(st.sampled_from(["$and", "$and", "$and_any_order", "$or"])): [child]}
        pattern = [dA, attach(group, {"min": c_, "max": d_}, "sibling-first" if spelling == "sibling-first" else "sibling"), dB]
        L = _mk_listing(draw, pre + [A] + [x_] * total + [B] + post)
        assume(_names_ok(pattern))
        return {"shape": "sandwich", "kind": kind, "listing": L, "pattern": pattern, "edge": "gap" if total in gaps else "inside", "times": {"min": c_, "max": d_}, "r": total, "flags": list(full), "ext": "none"}
    if kind == "capture-ref":
        x_ = inst_alts[0][0]
        L = _mk_listing(draw, pre + [A, x_] + body + [B] + post)
        shape = "sandwich"
        pattern = [dA, "&yc", {"&yc": {"times": t}}, dB]
        assume(_names_ok([dA, dB]))
        return {"shape": shape, "kind": kind, "listing": L, "pattern": pattern, "edge": edge, "times": t, "r": r, "flags": list(full), "ext": "none"}
    if shape == "sandwich":
        pattern = [dA, attach(node, t, spelling), dB]
        assume(_names_ok(pattern))
        return {"shape": shape, "kind": kind, "listing": L, "pattern": pattern, "edge": edge, "times": t, "r": r, "flags": list(full), "ext": ext, "big": big, "huge": huge, "spelling": spelling}
    # meta
    rel = draw(st.sampled_from(["unroll", "unroll", "range-eq-int", "spelling", "operand-deref", "operand-or", "operand-not", "operand-plain", "operand-capture-ref", "operand-regcapture-ref", "macro-plain-use", "macro-plain-use", "macro-plain-use", "macro-times-use", "macro-times-use", "macro-times-use", "macro-times-use"]))
    n_ = draw(st.integers(0, 4))
    macros = None
    if rel in ("macro-plain-use", "macro-times-use") and (kind not in ("item", "item-ops", "$or", "$and") or not usable):
        rel = "unroll"
    if rel == "macro-times-use":
        # `times` on the invocation of a list-bodied macro repeats what the macro stands for: [A, @m{times t}, B] against the same
        # rule with the body written out by hand and carrying that times (F32); run lengths around both bounds
        macros = [{"name": "@ytimes_", "pattern": [copy.deepcopy(node)]}]
        reps = draw(st.sampled_from(sorted({max(0, lo - 1), lo, hi, hi + 1, 1})))
        run = []
        for _ in range(reps):
            run.extend(draw(st.sampled_from(usable)))
        L = _mk_listing(draw, pre + [A] + run + [B] + post)
        inv = {"@ytimes_": {"times": t}} if spelling == "inside" else {"@ytimes_": [], "times": t} if spelling == "sibling" else {"times": t, "@ytimes_": []}
        p1 = [dA, inv, dB]
        p2 = [dA, {"$and": [copy.deepcopy(node)], "times": t}, dB]
        if draw(st.booleans()):
            # the same invocation twice in one rule (written out twice, or once with an anchor and once through an alias)
            mid = fresh(draw, avoid=xs + [A[0], B[0]])
            dM = describe_inst(draw, ("0", mid[0], mid[2]), full)
            run2 = []
            for _ in range(draw(st.sampled_from([lo, hi, hi, max(0, lo - 1), hi + 1]))):
                run2.extend(draw(st.sampled_from(usable)))
            L = _mk_listing(draw, pre + [A] + run + [mid] + run2 + [B] + post)
            p1 = [dA, inv, dM, copy.deepcopy(inv), dB]
            p2 = [dA, {"$and": [copy.deepcopy(node)], "times": t}, dM, {"$and": [copy.deepcopy(node)], "times": t}, dB]
    elif rel == "macro-plain-use":
        # an item without `times` is bounds (1,1) - also when it is a macro use and ANOTHER use of the same macro carries `times`:
        # [A, @m{times t}, @m, B] against the same rule with the plain use written out by hand (the macro still defined and used by
        # the first item, whatever `times` on an invocation means); run lengths where (1,1) and an inherited {lo,hi} part
        macros = [{"name": "@ytimes_", "pattern": [copy.deepcopy(node)]}]
        reps = draw(st.sampled_from(sorted({2, lo + 1, hi + 1, 2 * lo, 2 * hi, lo + hi, 1})))
        run = []
        for _ in range(reps):
            run.extend(draw(st.sampled_from(usable)))
        L = _mk_listing(draw, pre + [A] + run + [B] + post)
        inv = {"@ytimes_": {"times": t}} if spelling == "inside" else {"@ytimes_": [], "times": t} if spelling == "sibling" else {"times": t, "@ytimes_": []}
        plain_first = draw(st.booleans())
        p1 = [dA] + (["@ytimes_", inv] if plain_first else [inv, "@ytimes_"]) + [dB]
        p2 = [dA] + ([copy.deepcopy(node), inv] if plain_first else [inv, copy.deepcopy(node)]) + [dB]
    elif rel == "unroll":
        p1 = [dA, attach(node, n_ if draw(st.booleans()) else {"min": n_, "max": n_}, spelling), dB]
        p2 = [dA] + [copy.deepcopy(node) for _ in range(n_)] + [dB]
    elif rel == "range-eq-int":
        p1 = [dA, attach(node, n_, spelling), dB]
        p2 = [dA, attach(node, {"min": n_, "max": n_}, spelling), dB]
    elif rel == "spelling":
        name = node if isinstance(node, (str, int)) else list(node)[0]
        if not isinstance(name, (str, int)) or str(name).startswith("$"):
            name = "mov"
        p1 = [dA, {name: {"times": t}}, dB]
        p2 = [dA, {name: [], "times": t}, dB]
    else:
        # operand-level times: a run of n equal operands in one instruction
        if rel == "operand-deref":
            att, norm = draw(st.sampled_from([("0x8(%rax)", "[%rax+0x8]"), ("(%rbx,%rax,4)", "[%rbx+%rax*4]"), ("0x10(%rbx,%rax,4)", "[%rbx+%rax*4+0x10]"), ("(%rsp)", "[%rsp]")]))
            comp = parse_norm_mem(norm)
            keymap = {"a": "main_reg", "b": "register_multiplier", "c": "constant_multiplier", "k": "constant_offset"}
            opnode = {"$deref": {keymap[k]: v for k, v in comp.items()}}
        elif rel == "operand-capture-ref":
            att, norm = draw(st.sampled_from([("%rax", "%rax"), ("$0x10", "0x10"), ("%r8d", "%r8d")]))
            opnode = None
        elif rel == "operand-regcapture-ref":
            att, norm = draw(st.sampled_from([("%rax", "%rax"), ("%ebx", "%ebx"), ("%cx", "%cx"), ("%dl", "%dl")]))
            opnode = None
        elif rel == "operand-plain":
            # a plain operand name with `times` as sibling key ({rax: [], times: n}): repeats the operand like any other node there (F48)
            att, norm = draw(st.sampled_from([("%rax", "%rax"), ("$0x10", "0x10"), ("%r8d", "%r8d"), ("%xmm0", "%xmm0")]))
            # (the whole operand text as the name: a substring that occurs twice in the operand - the 0 of 0x10 - gives the failing side
            # of a long run 2^n ways to place it, see corrections 27)
            opnode = {norm.lstrip("%"): []}
        elif rel == "operand-not":
            # n consecutive operands none of which is the negated one (half of the time one of them is: both spellings then fail)
            att, norm = draw(st.sampled_from([("%rax", "%rax"), ("$0x10", "0x10"), ("%r8d", "%r8d")]))
            opnode = {"$not": [draw(st.sampled_from(["zz", "rbx", "0x77", norm.lstrip("%") if draw(st.booleans()) else "qq"]))]}
        else:
            att, norm = draw(st.sampled_from([("%rax", "%rax"), ("$0x10", "0x10"), ("%r8d", "%r8d")]))
            opnode = {"$or": [describe_operand(draw, norm) or "rax", "zz"]}
        cnt = draw(st.integers(max(0, n_ - 1), n_ + 1))
        tail_att, tail_norm = draw(st.sampled_from([("%rcx", "%rcx"), ("$0x1", "0x1")]))
        tval = n_ if draw(st.booleans()) else {"min": n_, "max": n_}
        if rel in ("operand-capture-ref", "operand-regcapture-ref"):
            # the repeated operand is a later occurrence of an operand capture (or of a register-family capture, F31) defined by the
            # first operand
            cname = "&yo" if rel == "operand-capture-ref" else draw(st.sampled_from(["&genreg", "&genreg-y", "&genreg.q"]))
            later = cname if rel == "operand-capture-ref" else cname + draw(st.sampled_from(["", "", {"%rax": ".64", "%ebx": ".32", "%cx": ".16", "%dl": ".8l"}[att]]))
            inst = ["vfoo", [att] * (cnt + 1) + [tail_att], [norm] * (cnt + 1) + [tail_norm]]
            L = _mk_listing(draw, pre + [A, inst, B] + post)
            p1 = [dA, {"vfoo": [cname, {later: {"times": tval}}, "c" if tail_norm == "%rcx" else "0x1"]}, dB]
            p2 = [dA, {"vfoo": [cname] + [later] * n_ + ["c" if tail_norm == "%rcx" else "0x1"]}, dB]
        else:
            inst = ["vfoo", [att] * cnt + [tail_att], [norm] * cnt + [tail_norm]]
            L = _mk_listing(draw, pre + [A, inst, B] + post)
            tn = dict(opnode)
            tn["times"] = tval
            p1 = [dA, {"vfoo": [tn, "c" if tail_norm == "%rcx" else "0x1"]}, dB]
            p2 = [dA, {"vfoo": [copy.deepcopy(opnode) if rel != "operand-plain" else list(opnode)[0] for _ in range(n_)] + ["c" if tail_norm == "%rcx" else "0x1"]}, dB]
    assume(_names_ok(p1) and _names_ok(p2))
    out = {"shape": shape, "kind": kind if rel in ("unroll", "range-eq-int") else rel, "rel": rel, "listing": L, "pattern": p1, "pattern2": p2, "edge": "meta", "n": n_, "flags": list(full)}
    if macros:
        out["macros"] = macros
    return out


def _names_ok(node, operand=False):
    if isinstance(node, list):
        return all(_names_ok(x, operand) for x in node)
    if isinstance(node, dict):
        for k, v in node.items():
            if k in ("$or", "$and", "$and_any_order", "$not"):
                if not _names_ok(v, operand):
                    return False
            elif k in ("$deref", "times") or str(k) in ("@ytimes_", "&yo", "&yc") or str(k).startswith("&genreg"):
                continue
            else:
                if not lit_ok(str(k), operand=False):
                    return False
                if isinstance(v, list) and not _names_ok(v, True):
                    return False
        return True
    if node in ("@ytimes_", "&yo", "&yc") or str(node).startswith("&genreg"):
        return True
    return lit_ok(str(node), operand=operand)


@st.composite
def capture_use_cases(draw):
    """A ranged item or group that USES a capture (it defines none): mov X,.. binds &r, then a run of r instructions that name X, then
    ret.  Narrow and wide ranges (more than 64 repetitions apart, where a written-out repetition has to fall back on something
    else), the run at min-1 .. max+1 and at max+min."""
    reg = draw(st.sampled_from(["%rbx", "%rcx", "%r12"]))
    lo = draw(st.integers(0, 3))
    width = draw(st.sampled_from([1, 2, 3, 63, 64, 65, 66, 70, 90]))
    hi = lo + width
    edge, r = draw(st.sampled_from([("min-1", lo - 1), ("min", lo), ("max", hi), ("max+1", hi + 1), ("max+min", hi + lo), ("inside", (lo + hi) // 2)]))
    assume(r >= 0)
    user = draw(st.sampled_from(["item", "or-group", "and-group", "family"]))
    cname = "&genreg-w" if user == "family" else "&r"
    assume(user != "family" or reg != "%r12")
    # (a register-family occurrence repeated over a run of 65+ instructions that must FAIL runs into the regex time limit on the pinned
    # tree already, whatever the bounds are written like: inconclusive by construction, so families keep to narrow ranges)
    assume(user != "family" or width <= 3)
    L = [["401000", "mov", [reg, "%rax"], [reg, "%rax"]]]
    for q in range(r):
        L.append([format(0x401003 + q, "x"), "push", [reg], [reg]])
    L.append([format(0x401003 + r, "x"), "ret", [], []])
    unit = {"item": {"push": [cname]}, "family": {"push": [cname + ".64"]}, "or-group": {"$or": [{"push": [cname]}, "zzq"]}, "and-group": {"$and": [{"push": [cname]}]}}[user]
    pattern = [{"mov": [cname]}, dict(unit, times={"min": lo, "max": hi}), "ret"]
    return {"shape": "sandwich", "kind": "capture-user-range", "edge": edge if edge != "inside" else "meta", "listing": L, "pattern": pattern, "r": r, "flags": [False, False], "wide": width > 64}


def strategy(tier):
    return st.one_of(*([cases()] * 11 + [capture_use_cases()]))


def evaluate(case):
    ev = Eval()
    ev.subcases = 0
    L = case["listing"]
    shape = case["shape"]
    ev.tags = [f"shape={shape}", f"kind={case['kind']}", f"edge={case['edge']}"]
    mn_full, op_full = case.get("flags", [False, False])
    flagged = bool(mn_full or op_full)
    mn_arg, op_arg = (mn_full, op_full) if flagged else (None, None)
    if flagged:
        ev.tags.append("flags=full")
    if case.get("ext", "none") != "none":
        ev.tags.append("ext=" + case["ext"])
    if case.get("big"):
        ev.tags.append("bounds=multi-digit")
    if case.get("huge"):
        ev.tags.append("bounds=around-1000")
    if case.get("wide"):
        ev.tags.append("bounds=capture-user-wider-than-64")
    if case.get("spelling"):
        ev.tags.append("spelling=" + case["spelling"])
    if any(isinstance(it, dict) and len(it) == 1 and str(list(it)[0]).startswith("$") and isinstance(list(it.values())[0], dict) and "times" in list(it.values())[0] for it in (case["pattern"] if isinstance(case["pattern"], list) else [])):
        ev.tags.append("spelling=times-inside-mapping-form-group")
    if shape in ("sandwich", "free"):
        exp, spans, _ = compare(ev, case["pattern"], L, mn_arg, op_arg)
        ev.tags.append("expect=found" if exp else "expect=notfound")
        ev.nontrivial = exp or case["edge"] in ("min-1", "min", "max", "max+1")
        ev.sample = {"shape": shape, "pattern": case["pattern"], "stream": stream_sample(L), "expected_found": exp, "r": case.get("r")}
        return ev
    text = render(att_view(L))
    r1 = jasm_io.match(jasm_io.make_doc(case["pattern"], mn_arg, op_arg, macros=case.get("macros")), text, mode="list", search="all")
    r2 = jasm_io.match(jasm_io.make_doc(case["pattern2"], mn_arg, op_arg, macros=case.get("macros")), text, mode="list", search="all")
    ev.subcases = 2
    ev.tags.append(f"rel={case['rel']}")
    if "inconclusive" in (r1[0], r2[0]):
        ev.inconclusive += 1
        return ev
    if r1[:2] != r2[:2] if (r1[0] == "ok" and r2[0] == "ok") else (r1[0] != r2[0]):
        ev.dev("meta-differ", rel=case["rel"], first=list(r1[:2]), second=list(r2[:2]))
    elif r1[0] == "exc":
        # both spellings rejected: not the silent disagreement the relation is about, but a rule in the stated domain must compile
        ev.dev("exception", rel=case["rel"], error=list(r1[1:]))
    if case["rel"] in ("unroll", "range-eq-int", "spelling"):
        # the written-out / alternative form is also judged by the reference
        exp, _, _ = compare(ev, case["pattern2"], L, mn_arg, op_arg, modes=("list",), tag="second-form")
        ev.tags.append("expect=found" if exp else "expect=notfound")
    ev.nontrivial = r1[0] == "ok" and (bool(r1[1]) or case.get("n", 0) != 1)
    ev.sample = {"shape": shape, "rel": case["rel"], "pattern": case["pattern"], "pattern2": case["pattern2"], "stream": stream_sample(L), "result": list(r1[:2])}
    return ev
