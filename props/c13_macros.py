"""C13 - macro expansion is equivalent to manual inlining."""
import copy

from hypothesis import assume, strategies as st

from vlib import jasm_io
from vlib.gen_listing import att_view, listings, norm_view
from vlib.gen_macro import factor, inline_all, instantiate, split_definitions
from vlib.gen_pattern import describe_operands_grouped, describe_window, substr
from vlib.gen_rules import names_ok
from vlib.render import render
from vlib.runner import Eval

ID = "C13"
LEVEL = "exploration"
CGF_RUNS = {"thorough": 10000}  # coverage-guided stage (vlib/cgf.py): libFuzzer executions per worker, 16 workers
RULE = (
    "A macro-free rule (describe-a-window generator with $and/$or/$and_any_order/$not/times, operand-level groups and $deref) is factored into 1-4 macros in the supported "
    "use forms - whole item, whole operand/value (leaf or subtree), string macro inside a longer name, string macro with a times body, parameterised macro with 1-3 formals "
    "standing for leaf names (list items, operands, $deref field values; actuals incl. YAML ints and 0) - with nested macros (a macro listed before the macros its body uses), "
    "1-3 uses per macro with equal and different actuals, and the definitions split between the rule file and 0-2 extra macro files. Oracle: produce_regex of the factored "
    "rule == produce_regex of the manually inlined rule (inlining done by a 40-line reference expander; its result on the un-extended factoring must equal the original rule, "
    "which is asserted); if the texts differ both rules are run on the base listing and two perturbations and only a behavioural difference (or one side raising) is a "
    "violation. Non-trivial: a parameterised macro used >= 2 times with different actuals, or >= 2 macro kinds combined; distinct by canonical hash."
)
ASSUMPTIONS = ["only the supported use forms are generated: a formal parameter in the key position of an item (the name of an item that has an operand list) is not, nor is a rule-file macro whose body refers to a macro of an extra file (the combined list is files-first, so the quantifier's listing order cannot be met for that split); string macros in keys (F38, F38b) and uses with times (F32) are generated", "macro names pairwise not substrings of one another"]
FLOORS = {"kind=nested-pass-through": 0.02, "kind=independent-uses": 0.02, "has-deref": 0.08, "kind=item": 0.1, "kind=operand": 0.1, "kind=substring": 0.1, "kind=times-body": 0.012, "kind=key-substring": 0.04, "kind=key-whole": 0.04, "kind=chain": 0.01, "kind=param": 0.15, "extra-files": 0.3, "extra-files-not-in-alphabetical-order": 0.04, "multi-use": 0.3}


def budget(tier):
    return {"cases": 4000 if tier == "quick" else 80000}


@st.composite
def base_rule(draw):
    L = draw(listings(min_len=3, max_len=9))
    NV = norm_view(L)
    n = len(L)
    i = draw(st.integers(0, n - 2))
    j = draw(st.integers(i + 1, min(n, i + 5)))
    pattern = describe_window(draw, NV, i, j, (False, False), allow=frozenset({"$and", "$or", "$and_any_order", "$not", "times", "gtimes"}), max_depth=2)
    # sprinkle operand-level groups
    for q, node in enumerate(pattern):
        if isinstance(node, (str, int)) and i + q < n and NV[i + q][2] and draw(st.integers(0, 2)) == 0:
            got = describe_operands_grouped(draw, NV[i + q][2])
            if got[0]:
                pattern[q] = {node: got[0]}
    # describe memory operands by $deref (their fields are mappings directly under a key: formals may stand for field values)
    from vlib.gen_listing import parse_norm_mem
    from vlib.gen_pattern import describe_operand

    keymap = {"a": "main_reg", "b": "register_multiplier", "c": "constant_multiplier", "k": "constant_offset"}
    for q, node in enumerate(pattern):
        if isinstance(node, (str, int)) and i + q < n and draw(st.integers(0, 1)) == 0:
            ops = NV[i + q][2]
            mem = [z for z, o in enumerate(ops) if parse_norm_mem(o)]
            if mem:
                z = mem[0]
                pre = [describe_operand(draw, o) for o in ops[:z]]
                if all(d is not None for d in pre):
                    comp = parse_norm_mem(ops[z])
                    pattern[q] = {node: pre + [{"$deref": {keymap[ck]: v for ck, v in comp.items()}}]}
    if draw(st.integers(0, 3)) == 0:
        # C13's oracle compares two renderings of the same rule, so the rule need not describe the listing: add a $deref item
        shape = draw(st.sampled_from([("main_reg",), ("main_reg", "constant_offset"), ("main_reg", "register_multiplier", "constant_multiplier"),
                                      ("main_reg", "register_multiplier", "constant_multiplier", "constant_offset")]))
        vals = {"main_reg": ["%rax", "rbx", "%rsp", "r8"], "register_multiplier": ["%rcx", "rdx", "%r9"], "constant_multiplier": ["4", 8, "2", 1], "constant_offset": ["0x10", "8", "-0x8", 16]}
        fields = {f: draw(st.sampled_from(vals[f])) for f in draw(st.permutations(list(shape)))}
        ops = [{"$deref": fields}]
        if draw(st.booleans()):
            ops.insert(draw(st.integers(0, 1)), draw(st.sampled_from(["rax", "%ecx", "0x1"])))
        pattern.insert(draw(st.integers(0, len(pattern))), {draw(st.sampled_from(["mov", "lea", "add"])): ops})
    for q, node in enumerate(pattern):
        if isinstance(node, str) and draw(st.integers(0, 3)) == 0:
            pattern[q] = {node: {"times": draw(st.sampled_from([1, {"min": 1, "max": 1}, {"min": 1, "max": 2}]))}}
    assume(names_ok(pattern))
    return L, pattern


@st.composite
def cases(draw):
    if draw(st.integers(0, 5)) == 0:
        # two different rules compiled one after the other with the SAME, unchanged extra macro file whose macro body refers to
        # a macro that each rule defines differently ("the macro definitions are not altered by being used")
        inner_a, inner_b = draw(st.sampled_from([("movl", "lea"), ("%rbp", "%rbx"), ("push", "pop"), ("0x10", "0x8")]))
        shape = draw(st.sampled_from(["item", "operand"]))
        if shape == "item":
            lib = [{"name": "@lib_", "pattern": [{"$and": ["@inner_", draw(st.sampled_from(["call", "ret", "nop"]))]}]}]
            use = ["@lib_"]
        else:
            lib = [{"name": "@lib_", "pattern": [{"mov": ["@inner_", draw(st.sampled_from(["rax", "%r8"]))]}]}]
            use = ["@lib_", "ret"]
        return {"pair": True, "lib": lib, "use": use, "inner": [inner_a, inner_b], "repeat_first": draw(st.booleans())}
    form = draw(st.integers(0, 11))
    if form in (0, 2):
        # parameterised macros written out by hand, the inlined rule next to them.  Three variants:
        #  pass-through   the outer macro hands its own formal on to a second parameterised macro under the same name (the
        #                 repository's macro files use `reg` everywhere):           xor A, A ; <second>(A)
        #  fixed-inner    the inner call has a fixed argument, its label is spelled like the outer formal:  xor K, K ; <second>(A)
        #  nested-key     two formals, one of them named like a key that occurs inside the other one's (mapping-valued) argument:
        #                 @store(main_reg, dst) = mov [main_reg, dst], called with dst: {$deref: {main_reg: rsp}}
        variant = draw(st.sampled_from(["pass-through", "fixed-inner", "fixed-inner", "nested-key", "nested-key", "times-formal", "times-formal"]))
        if variant == "times-formal":
            #  times-formal   a formal parameter stands for the value of `times` (every spelling), the argument is an integer or a range:
            #                 @pad(cnt) = {$or: [nop, xchg], times: cnt}, called with cnt: 3, must be the group written with times: 3
            cnt = draw(st.sampled_from([3, 0, 2, 1, {"min": 1, "max": 2}, {"min": 0, "max": 3}]))
            shape_ = draw(st.sampled_from(["group-sibling", "item-inside", "item-sibling", "item-ops-sibling"]))

            def body_(v_):
                return {"group-sibling": {"$or": ["nop", "xchg"], "times": v_}, "item-inside": {"nop": {"times": v_}}, "item-sibling": {"nop": [], "times": v_},
                        "item-ops-sibling": {"mov": ["rax"], "times": v_}}[shape_]

            macros_ = [{"name": "@ypad_", "args": ["cnt"], "pattern": [body_("cnt")]}]
            in_file, files = split_definitions(draw, macros_)
            pre_ = draw(st.sampled_from([[], ["push"]]))
            return {"handmade": "nested-pass-through", "variant": variant, "factored": pre_ + [{"@ypad_": None, "cnt": cnt}, "ret"], "inlined": pre_ + [body_(cnt), "ret"], "macros_in_file": in_file, "macro_files": files}
        actual = draw(st.sampled_from(["rax", "%r8d", "0x10", 0, "e"]))
        if variant == "nested-key":
            key = draw(st.sampled_from(["main_reg", "constant_offset", "register_multiplier"]))
            deref = {"main_reg": "rsp"}
            if key != "main_reg" or draw(st.booleans()):
                deref["constant_offset"] = "0x8"
            if key == "register_multiplier":
                deref.update({"register_multiplier": "rcx", "constant_multiplier": 4})
            formals = [key, "dst"] if draw(st.booleans()) else ["dst", key]
            body = [{"mov": [key, "dst"] if draw(st.booleans()) else ["dst", key]}]
            macros_ = [{"name": "@ystore_", "args": formals, "pattern": body}]
            call = {"@ystore_": None}
            for f_ in (list(reversed(formals)) if draw(st.booleans()) else formals):
                call[f_] = actual if f_ == key else {"$deref": dict(deref)}
            inl = [{"mov": [actual if o_ == key else {"$deref": dict(deref)} for o_ in body[0]["mov"]]}]
            in_file, files = split_definitions(draw, macros_)
            if draw(st.booleans()):
                # the other accepted call spelling: the labels indented one level deeper, i.e. as the mapping under the macro name
                call = {"@ystore_": {k_: v_ for k_, v_ in call.items() if k_ != "@ystore_"}}
                variant = "nested-key-nested-spelling"
            return {"handmade": "nested-pass-through", "variant": variant, "factored": [call], "inlined": inl, "macros_in_file": in_file, "macro_files": files}
        f = draw(st.sampled_from(["reg", "r", "macro-arg1", "x"]))
        fixed = draw(st.sampled_from(["rbx", "%r9", "0x20"]))
        inner = {"name": "@yinner_", "args": [f], "pattern": [{"xor": [f, f]}]}
        second = draw(st.sampled_from([{"push": [f]}, {"mov": [f, "rbx"]}, "ret"]))
        given = f if variant == "pass-through" else fixed
        kids = [{"@yinner_": None, f: given}, second]
        if draw(st.booleans()):
            kids = [second, {"@yinner_": None, f: given}]
        outer = {"name": "@youter_", "args": [f], "pattern": [{"$and": kids}]}

        def sub_(n_):
            return {k_: [actual if o_ == f else o_ for o_ in v_] for k_, v_ in n_.items()} if isinstance(n_, dict) else n_

        got = actual if variant == "pass-through" else fixed
        inl = [{"$and": [{"xor": [got, got]} if isinstance(k_, dict) and "@yinner_" in k_ else sub_(k_) for k_ in kids]}]
        macros_ = [outer, inner]
        in_file, files = split_definitions(draw, macros_)
        return {"handmade": "nested-pass-through", "variant": variant, "factored": [{"@youter_": None, f: actual}], "inlined": inl, "macros_in_file": in_file, "macro_files": files}
    if form == 1:
        # compositionality, no reference needed: the regex of [X, "@m"] is the regex of [X] followed by that of ["@m"], whatever
        # a `times` on the invocation X of an arg-less tree macro means - one use must not change what another use compiles to
        body = draw(st.sampled_from([[{"$or": ["push", "pop"]}], [{"mov": ["rax", "rbx"]}], ["nop"], [{"$and": ["push", "pop"]}]]))
        t = draw(st.sampled_from([2, 3, {"min": 1, "max": 2}, {"min": 0, "max": 3}]))
        spelling = draw(st.sampled_from(["inside", "sibling", "sibling-first"]))
        x = {"@ytree_": {"times": t}} if spelling == "inside" else {"@ytree_": [], "times": t} if spelling == "sibling" else {"times": t, "@ytree_": []}
        other = draw(st.sampled_from(["@ytree_", "@ytree_", {"$or": ["@ytree_", "ret"]}]))
        return {"handmade": "independent-uses", "x": x, "other": other, "x_first": draw(st.booleans()), "macros_in_file": [{"name": "@ytree_", "pattern": body}], "macro_files": []}
    L, pattern = draw(base_rule())
    factored, macros, kinds = factor(draw, pattern)
    assume(macros)
    # further uses: 0-2 more uses of some macros appended at top level (both renderings get them through the reference expander)
    multi = False
    for m in macros:
        if draw(st.integers(0, 2)) == 0:
            continue
        for _ in range(draw(st.integers(1, 2))):
            if "args" in m:
                call = {m["name"]: None}
                for f in m["args"]:
                    # an actual may happen to be spelled like ANOTHER formal of the same macro: substitution is simultaneous
                    call[f] = draw(st.sampled_from(["rax", "%r8d", "0x10", 0, 10, "zz", "e", "%"] + [g for g in m["args"] if g != f]))
                factored.append(call)
                multi = True
            elif isinstance(m["pattern"], list):
                body = m["pattern"][0]
                is_item = isinstance(body, str) or (isinstance(body, dict) and not any(k in body for k in ("$deref",)))
                if is_item and m["name"] in [x for x in _top_strings(factored)] or draw(st.booleans()):
                    # a whole-item macro can be used again as an item; an operand macro again as an operand
                    if _used_as_item(factored, macros, m["name"]):
                        factored.append(m["name"])
                    else:
                        factored.append({"mov": [m["name"]]})
                    multi = True
            else:
                how = draw(st.integers(0, 2))
                use = "pre" + m["name"] + "x" if how == 0 else "pre" + m["name"] + m["name"] + "x" if how == 1 else m["name"] + "q" + m["name"]
                factored.append({"add": [use]})  # also the same string macro twice inside one name
                multi = True
    if draw(st.integers(0, 5)) == 0:
        # a string macro whose body is a regex fragment with a top-level alternation, spliced into a longer name: inlining is
        # textual (j@mre_ with @mre_ = e|ne is the name je|ne)
        body = draw(st.sampled_from(["e|ne", "l|r", "a|b|c", "[lr]|x", "ov|ovl"]))
        macros.append({"name": "@mre_", "pattern": body})
        use = draw(st.sampled_from(["j@mre_", "m@mre_", "@mre_q", "s@mre_l"]))
        factored.append(draw(st.sampled_from([use, {"mov": [use]}, {"mov": ["rax", use]}])))  # item and operand position (inside a key it is not a supported form)
        multi = True
        kinds = kinds + ["regex-substring"]
    in_file, files = split_definitions(draw, macros)
    return {"listing": L, "original": pattern, "factored": factored, "macros_in_file": in_file, "macro_files": files, "kinds": sorted(set(kinds)), "multi": multi}


def _strleaves(node):
    """Leaf names compared as text: a YAML int 8 and the string '8' are the same name."""
    if isinstance(node, list):
        return [_strleaves(x) for x in node]
    if isinstance(node, dict):
        return {str(k): (_strleaves(v) if k != "times" else v) for k, v in node.items()}
    return str(node)


def _top_strings(p):
    return [x for x in p if isinstance(x, str)]


def _used_as_item(factored, macros, name):
    """Was macro `name` created from an instruction-level slot?"""
    def scan_items(container):
        for node in container:
            if node == name:
                return True
            if isinstance(node, dict):
                k = list(node)[0]
                if k == name:
                    return True
                if k in ("$and", "$or", "$and_any_order", "$not") and scan_items(node[k]):
                    return True
        return False

    if scan_items(factored):
        return True
    for m in macros:
        if isinstance(m["pattern"], list) and scan_items(m["pattern"]):
            return True
    return False


def strategy(tier):
    return cases()


def evaluate_pair(case):
    ev = Eval()
    sc = jasm_io.scratch()
    libpath = sc.write("shared_lib_macros.yaml", jasm_io.dump_yaml({"macros": case["lib"]}))  # written once, used by every compilation below
    order = [0, 1] + ([0] if case["repeat_first"] else [])
    ev.tags = ["kind=shared-lib-pair", "extra-files", "multi-use"]
    ev.nontrivial = True
    ev.subcases = 0
    for step, which in enumerate(order):
        inner = {"name": "@inner_", "pattern": case["inner"][which]}
        doc_f = jasm_io.make_doc(case["use"], macros=[inner])
        inlined = inline_all(copy.deepcopy(case["use"]), case["lib"] + [inner])
        rf = jasm_io.compile_rule(doc_f, macros=[libpath])
        ri = jasm_io.compile_rule(jasm_io.make_doc(inlined))
        ev.subcases += 2
        if rf[0] != "ok" or ri[0] != "ok":
            ev.dev("shared-lib-rule-rejected", step=step, factored=list(rf[:2])[:2] if rf[0] != "ok" else "ok", inlined=list(ri[:2])[:2] if ri[0] != "ok" else "ok")
            break
        if rf[1] != ri[1]:
            ev.dev("shared-library-macro-altered-by-use", step=step, inner=case["inner"][which], factored_regex=rf[1][:400], inlined_regex=ri[1][:400])
            break
    ev.sample = {"shared_lib": case["lib"], "rule": case["use"], "inner_definitions": case["inner"]}
    return ev


def _times_of(t):
    if isinstance(t, int):
        return t
    if isinstance(t, dict):
        return max(int(t.get("min", 1)), 0) or (1 if int(t.get("max", 1)) >= 1 else 0)
    return 1


def synth_listing(pattern, pick=0):
    """Best-effort witness: instructions that a macro-free rule is meant to match (pick-th alternative of every $or, the
    minimum number of repetitions, a memory operand spelled from each $deref, %rax for captures).  No claim that the rule
    matches it - both renderings of the rule are simply run on it and must agree."""
    def operand(p, out):
        if isinstance(p, (str, int)):
            s_ = str(p)
            out.append("%rax" if s_.startswith("&") else s_)
        elif isinstance(p, dict):
            k = list(p)[0] if list(p)[0] != "times" or len(p) == 1 else list(p)[1]
            if k == "$deref":
                f = p[k]
                def reg(v):
                    v = str(v[0]["$or"][0] if isinstance(v, list) else v)
                    return v if v.startswith("%") else "%" + v
                def const(v):
                    v = str(v[0]["$or"][0] if isinstance(v, list) else v)
                    neg = v.startswith("-")
                    v = v.lstrip("-")
                    return ("-" if neg else "") + (v if v.startswith("0x") else "0x" + v)
                a = reg(f.get("main_reg", "rax"))
                kk = const(f["constant_offset"]) if f.get("constant_offset") not in (None, "") else ""
                if f.get("register_multiplier") is not None:
                    out.append(f"{kk}({a},{reg(f['register_multiplier'])},{str(f.get('constant_multiplier', 1)).replace('0x', '')})")
                else:
                    out.append(f"{kk}({a})")
            elif k == "$or":
                alts = p[k]
                operand(alts[min(pick, len(alts) - 1)], out)
            elif k in ("$and", "$and_any_order"):
                for c in p[k]:
                    operand(c, out)
            elif k == "$not":
                out.append("zzq")

    def insts(node, out):
        if isinstance(node, (str, int)):
            out.append((str(node), []))
            return
        keys = list(node)
        k = keys[0] if keys[0] != "times" or len(keys) == 1 else keys[1]
        body = node[k]
        reps = _times_of(node["times"]) if "times" in node and k != "times" else (_times_of(body["times"]) if isinstance(body, dict) and "times" in body else 1)
        for _ in range(min(reps, 4)):
            if k == "$or":
                insts(body[min(pick, len(body) - 1)], out)
            elif k in ("$and", "$and_any_order"):
                for c in body:
                    insts(c, out)
            elif k == "$not":
                out.append(("zzq", []))
            else:
                ops = []
                for p_ in (body if isinstance(body, list) else []):
                    operand(p_, ops)
                out.append((str(k), ops))

    out = []
    for node in pattern:
        insts(node, out)
    L = []
    a = 0x401000
    for m, ops in [("nop", [])] + out + [("nop", [])]:
        L.append((format(a, "x"), m, ops))
        a += 3
    return render(L)


def evaluate_handmade(case):
    ev = Eval()
    sc = jasm_io.scratch()
    paths = [sc.write(f"macros_{q}.yaml", jasm_io.dump_yaml({"macros": f})) for q, f in enumerate(case["macro_files"])]
    mf = case["macros_in_file"] or None
    ev.tags = ["kind=" + case["handmade"]] + (["extra-files"] if paths else []) + (["variant=" + case["variant"]] if case.get("variant") else [])
    ev.nontrivial = True
    if case["handmade"] == "nested-pass-through":
        rf = jasm_io.compile_rule(jasm_io.make_doc(case["factored"], macros=mf), macros=paths or None)
        ri = jasm_io.compile_rule(jasm_io.make_doc(case["inlined"]))
        ev.subcases = 2
        if ri[0] != "ok":
            return ev
        if rf[0] != "ok":
            ev.dev("factored-rule-rejected", error=list(rf[1:]), factored=case["factored"])
        elif rf[1] != ri[1]:
            ev.dev("nested-call-differs-from-inlining", variant=case.get("variant"), factored=case["factored"], macros=case["macros_in_file"] + [m_ for f_ in case["macro_files"] for m_ in f_], factored_regex=rf[1][:400], inlined_regex=ri[1][:400])
        ev.sample = {"factored": case["factored"], "inlined": case["inlined"], "macros_in_file": case["macros_in_file"], "macro_files": case["macro_files"]}
        return ev
    x, other = case["x"], case["other"]
    full = [x, other] if case["x_first"] else [other, x]
    rs = {}
    for nm, pat in (("full", full), ("x", [x]), ("other", [other])):
        rs[nm] = jasm_io.compile_rule(jasm_io.make_doc(pat, macros=mf), macros=paths or None)
    ev.subcases = 3
    ev.sample = {"rule": full, "macros": case["macros_in_file"]}
    if any(r[0] == "inconclusive" for r in rs.values()):
        ev.inconclusive += 1
        return ev
    if len({r[0] for r in rs.values()}) > 1:
        ev.dev("uses-compile-alone-but-not-together", outcomes={k: list(v[:2]) for k, v in rs.items()})
        return ev
    if rs["full"][0] != "ok":
        return ev
    def inner(r):
        return r[3:-1] if r.startswith("(?:") and r.endswith(")") else r
    parts = [inner(rs["x"][1]), inner(rs["other"][1])] if case["x_first"] else [inner(rs["other"][1]), inner(rs["x"][1])]
    if inner(rs["full"][1]) != "".join(parts):
        ev.dev("one-use-changes-another", rule=full, together=rs["full"][1][:400], x_alone=rs["x"][1][:200], other_alone=rs["other"][1][:200])
    return ev


def evaluate(case):
    if case.get("pair"):
        return evaluate_pair(case)
    if case.get("handmade"):
        return evaluate_handmade(case)
    ev = Eval()
    macros = [m for f in case["macro_files"] for m in f] + case["macros_in_file"]
    inlined = inline_all(copy.deepcopy(case["factored"]), macros)
    # sanity of the harness's own factoring: without the appended extra uses, inlining gives back the original rule
    n0 = len(case["original"])
    if _strleaves(inlined[:n0]) != _strleaves(case["original"]):
        raise AssertionError(f"harness factoring is not an inverse of inlining: {inlined[:n0]} != {case['original']}")
    sc = jasm_io.scratch()
    paths = []
    # the files are applied in the order they are given, whatever their names: in half of the cases (chosen by the rule's text) the
    # given order is the reverse of the alphabetical order of the paths
    flipped = len(str(case["factored"])) % 2 == 1
    fnames = ["zz_site_macros.yaml", "aa_base_macros.yaml"] if flipped else ["aa_base_macros.yaml", "zz_site_macros.yaml"]
    for q, f in enumerate(case["macro_files"]):
        paths.append(sc.write(fnames[q] if q < 2 else f"zzz_macros_{q}.yaml", jasm_io.dump_yaml({"macros": f})))
    ev_tag_flipped = flipped and len(paths) >= 2
    doc_f = jasm_io.make_doc(case["factored"], macros=case["macros_in_file"] or None)
    doc_i = jasm_io.make_doc(inlined)
    rf = jasm_io.compile_rule(doc_f, macros=paths or None)
    ri = jasm_io.compile_rule(doc_i)
    ev.subcases = 2
    ev.tags = [f"kind={k}" for k in case["kinds"]]
    if "$deref" in jasm_io.dump_yaml(case["original"]):
        ev.tags.append("has-deref")
    if case["macro_files"]:
        ev.tags.append("extra-files")
    if ev_tag_flipped:
        ev.tags.append("extra-files-not-in-alphabetical-order")
    if case["multi"]:
        ev.tags.append("multi-use")
    if len(case["kinds"]) >= 2:
        ev.tags.append("kinds>=2")
    ev.nontrivial = case["multi"] or len(case["kinds"]) >= 2
    ev.sample = {"factored": case["factored"], "macros_in_file": case["macros_in_file"], "macro_files": case["macro_files"], "inlined": inlined}
    if ri[0] != "ok":
        # the inlined (macro-free) rule itself is rejected: both must then be rejected
        if rf[0] == "ok":
            ev.dev("factored-compiles-inlined-does-not", inlined_error=list(ri[1:]))
        return ev
    if rf[0] != "ok":
        ev.dev("factored-rule-rejected", error=list(rf[1:]), factored=case["factored"], macros=macros)
        return ev
    if rf[1] == ri[1]:
        return ev
    ev.tags.append("regex-text-differs")
    text = render(att_view(case["listing"]))
    L2 = [list(r) for r in case["listing"]]
    variants = [text, render(att_view(L2[::-1] if len(L2) > 1 else L2)), render(att_view(L2 + L2))]
    # witnesses synthesised from the inlined rule as a whole and from each of its items alone (an appended extra use is one item)
    try:
        variants += [synth_listing(inlined, 0), synth_listing(inlined, 1)]
        singles = [{"pattern": [it], "text": synth_listing([it], 0)} for it in inlined[-3:]]
    except Exception:  # noqa: BLE001 - the synthesiser is best effort
        singles = []
    for t in variants:
        a = jasm_io.match(doc_f, t, mode="list", search="all", macros=paths or None)
        b = jasm_io.match(doc_i, t, mode="list", search="all")
        ev.subcases += 2
        if a[:2] != b[:2]:
            ev.dev("behaviour-differs", factored_result=list(a[:2])[:3], inlined_result=list(b[:2])[:3], factored_regex=rf[1][:600], inlined_regex=ri[1][:600])
            break
    if not ev.deviations and singles:
        # the last items of the rule (where extra uses are appended), each as a rule of its own: item q of the factored rule
        # corresponds to item q of the inlined rule
        nf = len(case["factored"])
        for q in range(max(0, nf - 3), nf):
            doc_fq = jasm_io.make_doc([case["factored"][q]], macros=case["macros_in_file"] or None)
            doc_iq = jasm_io.make_doc([inlined[q]])
            try:
                t = synth_listing([inlined[q]], 0)
            except Exception:  # noqa: BLE001
                continue
            a = jasm_io.match(doc_fq, t, mode="list", search="all", macros=paths or None)
            b = jasm_io.match(doc_iq, t, mode="list", search="all")
            ev.subcases += 2
            if a[0] == "ok" and b[0] == "ok" and a[1] != b[1]:
                ev.dev("behaviour-differs", item=q, factored_item=case["factored"][q], inlined_item=inlined[q], factored_result=a[1][:3], inlined_result=b[1][:3])
                break
    return ev
