"""C01 - instruction-sequence patterns match exactly the listings that contain them."""
from hypothesis import assume, strategies as st

from vlib import jasm_io
from vlib.gen_listing import OPERANDS, listings, instruction_body, norm_view, att_view, present_addresses
from vlib.matcheval import locate as locate_from, record_table
from vlib.realsrc import real_window_cases, records_of_text
from vlib.gen_pattern import describe_inst, describe_operand, is_hex_literal_name, lit_ok, random_item, substr
from vlib.model import stream_record
from vlib.refmatch import Ref
from vlib.render import render
from vlib.runner import Eval

ID = "C01"
LEVEL = "exploration"
CGF_RUNS = {"thorough": 3000}  # coverage-guided stage (vlib/cgf.py): libFuzzer executions per worker, 16 workers
RULE = (
    "Cases are (rule, listing) pairs built by describing a window of a generated listing with literal names "
    "(substrings, or whole names) and then applying at most one near-miss mutator (class drawn first); every pair is "
    "evaluated under all 4 settings of mnemonics-full-match/operands-full-match in bool and all-matches mode and compared "
    "with a direct containment predicate over the instruction list. One case in eight takes its listing from real objdump output of generated code bytes "
    "(blobs in three modes, ELF objects incl. linked ones): the rule describes a window of the decoded stream, then one line-level mutation (delete / swap / duplicate "
    "an instruction line, a name from another instruction, operand names shifted by one). Non-trivial: the un-mutated description (expected found) "
    "or a single-mutation near miss of one; distinct by canonical JSON hash of (rule, listing)."
)
ASSUMPTIONS = [
    "literal names are [A-Za-z0-9%:_-]+, not starting with $ & @, not 'times'; an operand name of the spelling <hex>h is read as the hexadecimal literal 0x<hex> (the repository's unit tests pin A3h -> 0xA3) and is generated only in a labelled class",
    "operand normal forms of the listing vocabulary come from a hand-written table (checked against JASM in C09)",
    "listings <= 14 instructions, rules <= 4 items, <= 3 operand names per item",
]
MUTATORS = [
    "none", "none", "none", "op-rotate", "op-drop-first", "mn-as-op", "op-as-mn", "insert", "delete", "swap",
    "hexword", "later-operand", "next-inst", "too-many-ops", "extra-trailing-op", "edge-window", "unrelated", "hex-h-name", "int-name",
]
FLOORS = {"expect=found": 0.30, "near-miss": 0.30, "listing=real-objdump": 0.06, "same-path-rewrite-with-restored-mtime": 0.02}
for _m in set(MUTATORS) - {"none", "unrelated"}:
    FLOORS[f"mut={_m}"] = 0.02
FLAGS = [(False, False), (True, False), (False, True), (True, True)]
HEXWORDS = ["add", "dec", "bad", "fee", "dead", "beef", "cafe", "face", "adc", "fadd", "e", "0"]


def budget(tier):
    return {"cases": 6000 if tier == "quick" else 120000}


@st.composite
def cases(draw):
    if draw(st.integers(0, 7)) == 0:
        # the listing is what objdump prints for generated code bytes; the rule describes a window of it (vlib/realsrc.py)
        c = draw(real_window_cases())
        c["form"] = "real"
        return c
    mut = draw(st.sampled_from(MUTATORS))
    L = draw(listings(min_len=1, max_len=12))
    full = (draw(st.booleans()), draw(st.booleans()))
    n = len(L)
    if mut == "edge-window":
        wlen = draw(st.integers(1, min(3, n)))
        i = 0 if draw(st.booleans()) else n - wlen
    else:
        i = draw(st.integers(0, n - 1))
        wlen = draw(st.integers(1, min(4, n - i)))
    j = i + wlen
    NV = norm_view(L)
    pattern = [describe_inst(draw, NV[k], full, force_ops=mut in ("op-rotate", "op-drop-first", "later-operand")) for k in range(i, j)]

    def new_inst():
        m, oa, on = draw(instruction_body())
        return ["0", m, oa, on]

    if mut == "op-rotate":
        k = draw(st.integers(i, j - 1))
        if len(L[k][2]) >= 2:
            L[k][2] = L[k][2][1:] + L[k][2][:1]
            L[k][3] = L[k][3][1:] + L[k][3][:1]
    elif mut == "op-drop-first":
        k = draw(st.integers(i, j - 1))
        if L[k][2]:
            L[k][2] = L[k][2][1:]
            L[k][3] = L[k][3][1:]
    elif mut == "mn-as-op":
        k = draw(st.integers(0, len(pattern) - 1))
        it = pattern[k]
        name = it if not isinstance(it, dict) else list(it)[0]
        pattern[k] = {name: [substr(draw, L[i + k][1])]}
    elif mut == "op-as-mn":
        k = draw(st.integers(0, len(pattern) - 1))
        ops = L[i + k][3]
        if ops:
            s = describe_operand(draw, ops[0])
            if s is not None and lit_ok(str(s), operand=False):
                pattern[k] = str(s)
    elif mut == "insert":
        pos = draw(st.integers(i + 1, j)) if wlen > 1 else draw(st.integers(i, j))
        L.insert(pos, new_inst())
    elif mut == "delete":
        k = draw(st.integers(i, j - 1))
        del L[k]
    elif mut == "swap":
        if wlen >= 2:
            k = draw(st.integers(i, j - 2))
            L[k], L[k + 1] = L[k + 1], L[k]
        elif n >= 2:
            k = i if i + 1 < n else i - 1
            L[k], L[k + 1] = L[k + 1], L[k]
    elif mut == "hexword":
        # a name that is a hexadecimal word: occurs in addresses (and maybe in mnemonics/operands)
        k = draw(st.integers(0, len(pattern) - 1))
        w = draw(st.sampled_from(HEXWORDS))
        where = draw(st.sampled_from(["mn", "op"]))
        if where == "mn":
            pattern[k] = w if not isinstance(pattern[k], dict) else {w: pattern[k][list(pattern[k])[0]]}
        else:
            it = pattern[k]
            name = it if not isinstance(it, dict) else list(it)[0]
            pattern[k] = {name: [w if w not in ("e", "0") else w]}
    elif mut == "later-operand":
        k = draw(st.integers(0, len(pattern) - 1))
        ops = L[i + k][3]
        if len(ops) >= 2:
            it = pattern[k]
            name = it if not isinstance(it, dict) else list(it)[0]
            s = describe_operand(draw, ops[1])
            if s is not None:
                pattern[k] = {name: [s]}
    elif mut == "next-inst":
        k = draw(st.integers(0, len(pattern) - 1))
        if i + k + 1 < len(L):
            nxt = L[i + k + 1]
            it = pattern[k]
            name = it if not isinstance(it, dict) else list(it)[0]
            have = list(it[name]) if isinstance(it, dict) else []
            src = draw(st.sampled_from(["mn", "op", "addr"]))
            if src == "mn":
                extra = substr(draw, nxt[1])
            elif src == "addr":
                extra = nxt[0]
            else:
                extra = describe_operand(draw, nxt[3][0]) if nxt[3] else substr(draw, nxt[1])
            if extra is not None and lit_ok(str(extra)):
                # ask for it just past the operands this instruction really has
                while len(have) < len(L[i + k][3]):
                    s = describe_operand(draw, L[i + k][3][len(have)])
                    if s is None:
                        break
                    have.append(s)
                if len(have) == len(L[i + k][3]):
                    pattern[k] = {name: have + [extra]}
    elif mut == "too-many-ops":
        k = draw(st.integers(0, len(pattern) - 1))
        it = pattern[k]
        name = it if not isinstance(it, dict) else list(it)[0]
        have = []
        for o in L[i + k][3]:
            s = describe_operand(draw, o)
            if s is None:
                break
            have.append(s)
        if len(have) == len(L[i + k][3]):
            o = draw(st.sampled_from(OPERANDS))[1]
            s = describe_operand(draw, o)
            pattern[k] = {name: have + [s if s is not None else "rax"]}
    elif mut == "extra-trailing-op":
        # window instructions get further operands: must not matter
        for k in range(i, j):
            if len(L[k][2]) < 3 and not any(' ' in x for x in L[k][2]) and draw(st.booleans()):
                o = draw(st.sampled_from(OPERANDS))
                L[k][2] = L[k][2] + [o[0]]
                L[k][3] = L[k][3] + [o[1]]
    elif mut == "hex-h-name":
        # an immediate described in the DSL's <hex>h spelling (10h = 0x10); the item's remaining operands are described as usual,
        # so the hex name must stay confined to its own operand field
        k = draw(st.integers(0, len(pattern) - 1))
        v = draw(st.sampled_from(["0x1", "0x10", "0x100", "0x8", "0xa", "0xab", "0x18"]))
        other = draw(st.sampled_from(OPERANDS))
        rec = L[i + k]
        if draw(st.booleans()):
            rec[2], rec[3] = ["$" + v, other[0]], [v, other[1]]
        else:
            rec[2], rec[3] = [other[0], "$" + v], [other[1], v]
        asked = draw(st.sampled_from(["0x1", "0x10", "0x100", "0x8", "0xa", "0xab", v, v]))
        it = pattern[k]
        name = it if not isinstance(it, dict) else list(it)[0]
        ops = []
        for q, o in enumerate(rec[3]):
            if o == v:
                ops.append(asked[2:] + "h")
            else:
                d = describe_operand(draw, o)
                if d is None:
                    break
                ops.append(d)
        pattern[k] = {name: ops}
    elif mut == "int-name":
        # an operand name that YAML types as an integer (unquoted 16, 255, -8): it is the literal text "16" - it occurs in $0x16 and
        # $16, not in $0x10 although 0x10 is its value
        k = draw(st.integers(0, len(pattern) - 1))
        n_ = draw(st.sampled_from([16, 255, 10, 8, 100, 32, 18, -8, 64]))
        shown = draw(st.sampled_from([format(abs(n_), "x"), str(abs(n_)), str(abs(n_)) + "0", format(abs(n_), "x")]))
        v = ("-" if n_ < 0 else "") + "0x" + shown
        other = draw(st.sampled_from(OPERANDS))
        rec = L[i + k]
        if n_ < 0:
            rec[2], rec[3] = [v + "(%rbp)", other[0]], ["[%rbp+" + v + "]", other[1]]
        elif draw(st.booleans()):
            rec[2], rec[3] = ["$" + v, other[0]], [v, other[1]]
        else:
            rec[2], rec[3] = [other[0], "$" + v], [other[1], v]
        it = pattern[k]
        name = it if not isinstance(it, dict) else list(it)[0]
        ops = []
        for q, o in enumerate(rec[3]):
            if v in o:
                ops.append(n_)
            else:
                d = describe_operand(draw, o)
                if d is None:
                    break
                ops.append(d)
        pattern[k] = {name: ops}
    elif mut == "unrelated":
        pattern = [random_item(draw) for _ in range(draw(st.integers(1, 3)))]
    # re-address so that addresses stay strictly increasing and unique
    a = int(L[0][0], 16) if L else 0
    for rec in L:
        rec[0] = format(a, "x")
        a += draw(st.integers(1, 7))
    addr_tags = present_addresses(draw, L)
    for it in pattern:
        name = it if not isinstance(it, dict) else list(it)[0]
        assume(lit_ok(str(name), operand=False))
        if isinstance(it, dict):
            for o in it[name]:
                assume(lit_ok(str(o)) or (mut == "hex-h-name" and is_hex_literal_name(str(o))))
    return {"mut": mut, "listing": L, "pattern": pattern, "false_as_absent": draw(st.booleans()), "addr_tags": addr_tags}


def strategy(tier):
    return cases()


def locate(text, records):
    """(i, j) such that text == records[i..j-1] concatenated, else None."""
    stream = "".join(records)
    starts = {}
    off = 0
    for k, r in enumerate(records):
        starts[off] = k
        off += len(r)
    ends = {}
    off = 0
    for k, r in enumerate(records):
        off += len(r)
        ends[off] = k + 1
    pos = stream.find(text)
    while pos != -1:
        if pos in starts and pos + len(text) in ends and text:
            return starts[pos], ends[pos + len(text)]
        pos = stream.find(text, pos + 1)
    return None


_SAME_LEN = {"%rax": "%rbx", "%rbx": "%rcx", "%rcx": "%rdx", "%rdx": "%rax", "%eax": "%ebx", "%ebx": "%ecx", "%ecx": "%edx", "%edx": "%eax", "$0x10": "$0x18", "$0x28": "$0x20", "%rsi": "%rdi",
             "%rdi": "%rsi", "%rsp": "%rbp", "%rbp": "%rsp", "$0x1": "$0x8", "$0x8": "$0x1", "%r8": "%r9", "%xmm0": "%xmm1", "%xmm1": "%xmm0"}


def _same_path_rewrite(ev, case, L, pattern):
    """The listing is matched, then replaced IN PLACE by one that differs in a single operand of the same length - same path, same
    size, and the old timestamps put back (cp -p, rsync -t, a patcher that restores them) - and matched again: the verdict is that
    of the file as it is now (nothing outside the window of instructions - here: what the file used to hold - influences it)."""
    import os

    cand = [(k, q) for k, rec in enumerate(L) for q, o in enumerate(rec[2]) if o in _SAME_LEN]
    if not cand:
        return
    k, q = cand[len(case["pattern"]) % len(cand)]
    L2 = [[r[0], r[1], list(r[2]), list(r[3])] for r in L]
    new = _SAME_LEN[L2[k][2][q]]
    L2[k][2][q] = new
    L2[k][3][q] = new.lstrip("$")
    t1, t2 = render(att_view(L)), render(att_view(L2))
    if len(t1) != len(t2):
        return
    sc = jasm_io.scratch()
    lp = sc.write("c01_rewritten_in_place.s", t1)
    rp = sc.write("c01_rewrite_rule.yaml", jasm_io.rule_text(jasm_io.make_doc(pattern)))
    first = jasm_io.match_files(rp, lp, mode="list", search="all", only_addr=True)
    st_ = os.stat(lp)
    with open(lp, "w") as f:
        f.write(t2)
    os.utime(lp, ns=(st_.st_atime_ns, st_.st_mtime_ns))
    second = jasm_io.match_files(rp, lp, mode="list", search="all", only_addr=True)
    fresh = jasm_io.match_files(rp, sc.write("c01_rewritten_copy.s", t2), mode="list", search="all", only_addr=True)
    ev.subcases += 3
    ev.tags.append("same-path-rewrite-with-restored-mtime")
    spans2 = Ref(norm_view(L2), False, False).spans(pattern)
    want2, pos = [], 0
    for i_ in sorted(spans2):
        if i_ >= pos and any(j_ > i_ for j_ in spans2[i_]):
            want2.append(L2[i_][0])
            pos = min(j_ for j_ in spans2[i_] if j_ > i_)
    if second[0] == "ok" and fresh[0] == "ok" and (second[1] != fresh[1] or second[1] != want2):
        ev.dev("stale-answer-after-rewrite-in-place", expected=want2[:4], same_path=second[1][:4], fresh_copy=fresh[1][:4], before_rewrite=first[1][:4] if first[0] == "ok" else list(first[:2]))
    elif "exc" in (second[0], fresh[0]):
        ev.dev("exception", mode="same-path-rewrite", error=[list(second[:2]), list(fresh[:2])])


def evaluate(case):
    ev = Eval()
    pattern = case["pattern"]
    mut = case["mut"]
    if case.get("form") == "real":
        text = case["text"]
        NV = records_of_text(text)
        ev.tags.append("listing=real-objdump")
        ev.tags.append("real-src=" + case.get("src", "?"))
        if case.get("focus"):
            ev.tags.append("real-window-on-exotic-field")
        if NV is None:
            # the stream cannot be produced or decoded: the parser-side properties' business (C08, C10), nothing to judge here
            ev.tags.append("real-undecodable")
            return ev
        # "its k-th operand": the fields of a record are the operands of the line as objdump printed it (commas outside parentheses)
        from vlib.refnorm import instruction_lines, line_operand_count

        lines_ = instruction_lines(text)
        if len(lines_) == len(NV):
            for (a_, t_), rec_ in zip(lines_, NV):
                n_ = line_operand_count(t_)
                if n_ is not None and n_ != len(rec_[2]):
                    ev.dev("operand-count-differs-from-line", line=t_, operands_on_line=n_, fields=list(rec_[2]), address=a_)
                    break
        mut = "real-" + mut
        L = NV
    else:
        L = case["listing"]
        text = render(att_view(L))
        NV = norm_view(L)
    records = [stream_record(a, m, o) for a, m, o in NV]
    ev.subcases = 0
    verdicts = []
    for mn_full, op_full in FLAGS:
        ref = Ref(NV, mn_full, op_full)
        spans = ref.spans(pattern)
        exp = any(j_ > i_ for i_, e_ in spans.items() for j_ in e_)
        verdicts.append(exp)
        if case.get("false_as_absent"):
            # a flag that is false may equally be left out of the config (its default)
            doc = jasm_io.make_doc(pattern, mn_full or None, op_full or None)
        else:
            doc = jasm_io.make_doc(pattern, mn_full, op_full)
        flags = {"mnemonics-full-match": mn_full, "operands-full-match": op_full}
        r_bool = jasm_io.match(doc, text, mode="bool", search="first")
        r_list = jasm_io.match(doc, text, mode="list", search="all")
        ev.subcases += 2
        for r, what in ((r_bool, "bool"), (r_list, "list")):
            if r[0] == "inconclusive":
                ev.inconclusive += 1
            elif r[0] == "exc":
                ev.dev("exception", mode=what, flags=flags, error=list(r[1:]))
        if r_bool[0] == "ok" and r_bool[1] is not exp:
            ev.dev("verdict", mode="bool", flags=flags, expected=exp, observed=r_bool[1])
        if r_list[0] == "ok":
            got = r_list[1]
            if bool(got) != exp:
                ev.dev("verdict", mode="list", flags=flags, expected=exp, observed=got[:3])
            table = record_table(records)
            pos_ = 0
            for t in got:
                # reported matches come in stream order: with repeated addresses a text may occur twice, the scan position tells which
                ij = locate_from(t, records, table, pos_)
                if ij is None:
                    ev.dev("match-not-a-window", flags=flags, observed=t)
                    break
                pos_ = ij[2] + len(t)
                if ij[1] not in spans.get(ij[0], ()):
                    ev.dev("match-not-contained", flags=flags, observed=t, span=list(ij[:2]))
                    break
    # the same question once more in address-only presentation (one flag setting per case, chosen by the case itself): the
    # addresses are those of the first instruction of each window of the leftmost non-overlapping scan - also address 0
    q = len(L) % 4
    mn_full, op_full = FLAGS[q]
    spans = Ref(NV, mn_full, op_full).spans(pattern)
    want, pos = [], 0
    for i_ in sorted(spans):
        if i_ >= pos:
            want.append(NV[i_][0])
            pos = min(spans[i_])
    r_addr = jasm_io.match(jasm_io.make_doc(pattern, mn_full, op_full), text, mode="list", search="all", only_addr=True)
    ev.subcases += 1
    if r_addr[0] == "ok" and r_addr[1] != want:
        ev.dev("address-list", flags={"mnemonics-full-match": mn_full, "operands-full-match": op_full}, expected=want[:6], observed=r_addr[1][:6])
    elif r_addr[0] == "exc":
        ev.dev("exception", mode="list/address-only", error=list(r_addr[1:]))
    if NV and NV[0][0] == "0" and want[:1] == ["0"]:
        ev.tags.append("match-at-address-0")
    if case.get("form") != "real" and len(text) % 12 == 5:
        _same_path_rewrite(ev, case, L, pattern)
    ev.tags += list(case.get("addr_tags", []))
    found_default = verdicts[0]
    ev.tags.append(f"mut={mut}")
    ev.tags.append("expect=found" if found_default else "expect=notfound")
    if len(set(verdicts)) > 1:
        ev.tags.append("flags-matter")
    if mut not in ("none", "unrelated", "real-none"):
        ev.tags.append("near-miss")
    ev.nontrivial = any(verdicts) or mut not in ("none", "unrelated", "real-none")
    ev.sample = {"mut": mut, "pattern": pattern, "stream": "".join(records), "expected_by_flags": verdicts}
    return ev


# ---------------------------------------------------------------------------------- small-scope exhaustive grid
GRID_MN = ["a", "ab", "b"]
GRID_OP = ["x", "xy", "y"]


def _grid_items():
    import itertools

    items = []
    for m in GRID_MN:
        items.append((m, []))
        for o1 in GRID_OP:
            items.append((m, [o1]))
            for o2 in GRID_OP:
                items.append((m, [o1, o2]))
    return items


def _grid_listing():
    """Every 1- and 2-instruction window over the 39-instruction alphabet, separated by a sentinel instruction."""
    insts = _grid_items()
    L = []
    a = 0x1000
    windows = []
    def put(m, ops):
        nonlocal a
        L.append((format(a, "x"), m, list(ops)))
        a += 4
    put("zz", [])
    for i1 in insts:
        windows.append((len(L), 1))
        put(*i1)
        put("zz", [])
    for i1 in insts:
        for i2 in insts:
            windows.append((len(L), 2))
            put(*i1)
            put(*i2)
            put("zz", [])
    return L, windows


def _grid_chunk(args):
    rules, flags_list = args
    L, windows = _grid_listing()
    sc = jasm_io.scratch()
    lp = sc.write("grid.s", render(L))
    bad = []
    n = 0
    for rule in rules:
        pattern = [m if not ops else {m: ops} for m, ops in rule]
        for mn_full, op_full in flags_list:
            ref = Ref(L, mn_full, op_full)
            spans = ref.spans(pattern)
            # leftmost non-overlapping scan of the reference spans
            exp = []
            pos = 0
            for i in sorted(spans):
                if i >= pos:
                    exp.append(L[i][0])
                    pos = min(spans[i])  # item rules have exactly one end per start
            rp = sc.write("grid_rule.yaml", jasm_io.rule_text(jasm_io.make_doc(pattern, mn_full, op_full)))
            r = jasm_io.match_files(rp, lp, mode="list", search="all", only_addr=True)
            n += 1
            if r[0] != "ok" or r[1] != exp:
                got = r[1] if r[0] == "ok" else list(r)
                diff = sorted(set(exp) ^ set(got))[:4] if r[0] == "ok" else got
                bad.append({"pattern": pattern, "flags": [mn_full, op_full], "first_differences_at": diff, "expected_count": len(exp), "observed_count": len(got) if r[0] == "ok" else None})
    return n, bad


def extra(tier, seed, rep):
    """Names over {a,ab,b}, operands over {x,xy,y}, rules of <= 2 items x <= 2 operand names, against every 1-2 instruction window."""
    import multiprocessing as mp

    items = _grid_items()
    rules = [[i] for i in items] + [[i, j] for i in items for j in items]
    exhaustive = tier == "thorough"
    if not exhaustive:
        rules = [r for k, r in enumerate(rules) if k % 24 == seed % 24]  # a slice of the grid in the quick tier
    chunks = [(rules[k::32], FLAGS) for k in range(32)]
    with mp.get_context("fork").Pool(16) as pool:
        results = pool.map(_grid_chunk, chunks)
    _, windows = _grid_listing()
    calls = sum(n for n, _ in results)
    bad = [b for _, bs in results for b in bs]
    rep.evaluations += calls
    rep.subcases += calls * len(windows)
    rep.extra["grid"] = {"rules": len(rules), "flag_settings": 4, "windows": len(windows), "api_calls": calls, "rule_window_verdicts": calls * len(windows), "complete": exhaustive}
    if exhaustive:
        rep.exhaustive_parts.append(f"small-scope grid: {len(rules)} rules x 4 flag settings x {len(windows)} windows")
    from vlib.model import digest

    for k in range(calls):
        rep.hashes.add(digest(("grid", tier, k)))
    for b in bad[:3]:
        rep.violations.append(({"grid": True, "pattern": b["pattern"], "flags": b["flags"]}, dict(b, kind="grid-mismatch")))


_evaluate_case = evaluate


def eval_zone(case):
    """A 64-item literal rule whose only occurrence straddles a plausible chunk size of a long listing (vlib/longlist.py);
    with `broken` set one instruction of the occurrence is replaced, and the rule must not be found."""
    from vlib import longlist

    ev = Eval()
    cut, broken = case["zone_cut"], case.get("broken")
    NV, start = longlist.zone_listing(cut)
    if broken is not None:
        NV[start + broken] = (NV[start + broken][0], "nop", [])
    pattern = longlist.zone_rules()["long"]
    text = render(NV)
    exp = broken is None
    r_bool = jasm_io.match(jasm_io.make_doc(pattern), text, mode="bool", search="first")
    r_list = jasm_io.match(jasm_io.make_doc(pattern), text, mode="list", search="all", only_addr=True)
    ev.subcases = 2
    for r, what in ((r_bool, "bool"), (r_list, "list")):
        if r[0] == "inconclusive":
            ev.inconclusive += 1
        elif r[0] == "exc":
            ev.dev("exception", mode=what, zone_cut=cut, error=list(r[1:]))
    if r_bool[0] == "ok" and r_bool[1] is not exp:
        ev.dev("verdict", mode="bool", zone_cut=cut, broken=broken, expected=exp, observed=r_bool[1])
    if r_list[0] == "ok" and r_list[1] != ([NV[start][0]] if exp else []):
        ev.dev("verdict", mode="list", zone_cut=cut, broken=broken, expected=[NV[start][0]] if exp else [], observed=r_list[1][:3])
    ev.tags = ["zone-listing"]
    ev.nontrivial = True
    ev.keys = [("zone", cut, broken)]
    return ev


def _zone_worker(case):
    return case, eval_zone(case)


_grid_extra = extra


def extra(tier, seed, rep):  # noqa: F811
    import multiprocessing as mp
    from vlib import longlist

    _grid_extra(tier, seed, rep)
    todo = []
    for c in sorted(longlist.CUTS, reverse=True):
        todo.append({"zone_cut": c})
        todo.append({"zone_cut": c, "broken": (c + seed) % longlist.ZONE})
    with mp.get_context("fork").Pool(16, maxtasksperchild=1) as pool:
        for case, ev in pool.imap_unordered(_zone_worker, todo, chunksize=1):
            rep.add_eval(case, ev)
    rep.extra["zone_cuts"] = longlist.CUTS
    rep.exhaustive_parts.append(f"zone listings: a 64-item rule straddling each of {len(longlist.CUTS)} chunk-size candidates (intact and with one instruction replaced)")


def evaluate(case):  # noqa: F811 - replayable grid cases
    if "zone_cut" in case:
        return eval_zone(case)
    if case.get("grid"):
        ev = Eval()
        n, bad = _grid_chunk(([[(m if isinstance(m, str) else list(m)[0], [] if isinstance(m, str) else m[list(m)[0]]) for m in case["pattern"]]], [tuple(case["flags"])]))
        for b in bad:
            ev.dev("grid-mismatch", **b)
        ev.nontrivial = True
        return ev
    return _evaluate_case(case)
