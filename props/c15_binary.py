"""C15 - matching a binary equals matching its `objdump -d -M att` text."""
import os
import re

from hypothesis import strategies as st

from vlib import jasm_io
from vlib.elfw import disassemble_object
from vlib.gen_bytes import build_object, objects
from vlib.objsrc import contain as _contain
from vlib.refnorm import classify_line
from vlib.runner import Eval

ID = "C15"
LEVEL = "exploration"
RULE = (
    "Generated ELF64/ELF32 relocatables, as they are or converted to another container objdump reads (COFF pe-x86-64 / pe-i386 / pe-bigobj via objcopy, regular, two-member and thin ar archives) (1-5 sections with drawn names, exec and non-exec flags, code bytes from the C08 byte strategies, function- and object-typed "
    "symbols) x a `sections` list drawn from {absent, one present, several present, present+absent mix, only absent names, a non-exec section} x 3 rules derived from the "
    "listing (a mnemonic that occurs, a 2-instruction window, an absent mnemonic). Oracle (differential): the harness runs `objdump -d -M att [-j s]... file` itself, stores "
    "stdout as text, and all_instructions_string plus the all-matches lists (full and address-only) must be identical between InputFileType.binary and "
    "InputFileType.assembly; if the harness's objdump exits non-zero JASM may raise or agree with the empty text but must not report a match. Non-trivial: >= 2 "
    "executable sections and a sections list selecting a proper non-empty subset; distinct by (object bytes, sections list)."
)
ASSUMPTIONS = ["objdump 2.40 on PATH is the disassembler JASM invokes and the harness invokes", "cases run back to back in one process per shard, so stale section state from an earlier rule is exercised too"]
FLOORS = {"sections=absent": 0.1, "sections=one": 0.1, "sections=several": 0.1, "sections=mix": 0.08, "sections=only-absent": 0.05, "sections=nonexec": 0.03, "proper-subset": 0.15, "container=coff": 0.025, "container=thin-ar": 0.025, "container=ar": 0.025}


def budget(tier):
    return {"cases": 1200 if tier == "quick" else 25000}


@st.composite
def cases(draw):
    obj = draw(objects())
    names = [s[0] for s in obj["sections"]]
    execs = [s[0] for s in obj["sections"] if s[2]]
    nonexec = [s[0] for s in obj["sections"] if not s[2]]
    kind = draw(st.sampled_from(["absent", "one", "several", "mix", "only-absent", "nonexec"]))
    if kind == "absent":
        secs = None
    elif kind == "one":
        secs = [draw(st.sampled_from(execs))]
    elif kind == "several":
        secs = list(draw(st.permutations(names)))[: draw(st.integers(1, len(names)))]
    elif kind == "mix":
        secs = [draw(st.sampled_from(names)), ".nosuch"] if draw(st.booleans()) else [".nosuch", draw(st.sampled_from(names))]
    elif kind == "only-absent":
        secs = [".nosuch"] + ([".neither"] if draw(st.booleans()) else [])
    else:
        secs = [draw(st.sampled_from(nonexec))] if nonexec else [draw(st.sampled_from(names))]
        if draw(st.booleans()) and execs:
            secs.append(draw(st.sampled_from(execs)))
    out = {"obj": obj, "sections_kind": kind, "sections": secs, "pick": draw(st.integers(0, 10**6))}
    if draw(st.integers(0, 3)) == 0:
        # the rule also carries an address range (it concerns branch targets; both routes must tag alike and list the same instructions)
        lo = draw(st.sampled_from([0, 2, 0x10, 0x401000]))
        out["addr_range"] = [format(lo, "x"), format(lo + draw(st.sampled_from([0, 3, 0x20, 0x1000])), "x")]
    container = draw(st.sampled_from(["elf", "elf", "elf", "elf", "coff", "bigobj", "ar", "thin-ar", "ar-two"]))
    if container != "elf":
        out["container"] = container
    return out


def strategy(tier):
    return cases()


_OKNAME = re.compile(r"^[a-z][a-z0-9]*$")


def evaluate(case):
    ev = Eval()
    sc = jasm_io.scratch()
    # the object under an ordinary name or under one with a blank, quote, backslash or parenthesis in the file or directory name (the
    # disassembler is a child process: the path travels through an argument list)
    import zlib

    blob = build_object(case["obj"])
    oname = ["c15.o", "c15.o", "c15.o", "code (copy).o", "firmware dump 2024/c15.o", "it's.o", 'say "hi".o', "back\\slash.o", "tab\there.o"][zlib.crc32(blob) % 9]
    if "/" in oname:
        os.makedirs(os.path.join(sc.dir, os.path.dirname(oname)), exist_ok=True)
    path = sc.write(oname, blob)
    path, ctag = _contain(sc, path, case)
    secs = case["sections"]
    rc, text, err = disassemble_object(path, secs)
    tpath = sc.write("c15.s", text)
    cfg = {"sections": secs} if secs is not None else None
    if case.get("addr_range"):
        cfg = dict(cfg or {}, valid_addr_range={"min": case["addr_range"][0], "max": case["addr_range"][1]})
    # rules derived from the listing
    mns = []
    for ln in text.split("\n"):
        c = classify_line(ln)
        if c[0] == "inst":
            tok = c[2].split(" ")[0]
            mns.append(tok if _OKNAME.match(tok) else None)
    rules = [["zzzzqq"]]
    good = [q for q, m in enumerate(mns) if m]
    if good:
        q = good[case["pick"] % len(good)]
        rules.append([mns[q]])
        if q + 1 < len(mns) and mns[q + 1]:
            rules.append([mns[q], mns[q + 1]])
    execs = [s[0] for s in case["obj"]["sections"] if s[2]]
    proper = secs is not None and len(execs) >= 2 and 0 < len(set(secs) & set(execs)) < len(execs)
    ev.tags = [f"sections={case['sections_kind']}", f"elf{case['obj']['bits']}", ctag] + (["rule-with-addr-range"] if case.get("addr_range") else [])
    if proper:
        ev.tags.append("proper-subset")
    if rc != 0:
        ev.tags.append("objdump-error")
    ev.subcases = 0
    for rule in rules:
        doc = jasm_io.make_doc(rule, config=cfg)
        rp = sc.write("c15_rule.yaml", jasm_io.rule_text(doc))
        for mode, search, only in (("str", "first", False), ("list", "all", False), ("list", "all", True), ("bool", "first", False)):
            b = jasm_io.match_files(rp, path, mode=mode, search=search, only_addr=only, binary=True)
            ev.subcases += 1
            if rc != 0:
                # objdump itself fails for this request: an error or the empty result are both faithful; a match is not
                if b[0] == "ok" and b[1] not in ("", [], False):
                    ev.dev("match-although-objdump-failed", rule=rule, mode=mode, observed=str(b[1])[:200], sections=secs)
                continue
            a = jasm_io.match_files(rp, tpath, mode=mode, search=search, only_addr=only, binary=False)
            if "inconclusive" in (a[0], b[0]):
                ev.inconclusive += 1
                continue
            if a[:2] != b[:2]:
                ev.dev("binary-vs-text", rule=rule, mode=[mode, search, only], sections=secs, text_route=_short(a), binary_route=_short(b))
                break
        if ev.deviations:
            break
    ev.nontrivial = proper and rc == 0
    ev.keys = [(build_object(case["obj"]).hex()[:4000], tuple(secs) if secs is not None else None, case.get("container", "elf"))]
    ev.sample = {"sections": secs, "section_names": [s[0] for s in case["obj"]["sections"]], "exec": execs, "rules": rules, "instruction_lines": len(mns), "objdump_rc": rc}
    return ev


def _short(r):
    if r[0] == "ok":
        v = r[1]
        return ["ok", (v[:200] + "...") if isinstance(v, str) and len(v) > 200 else (v[:5] if isinstance(v, list) else v)]
    return list(r)
