"""C18 - valid_addr_range tags exactly the direct calls/jumps that land in the range."""
from hypothesis import strategies as st

from vlib import jasm_io
from vlib.gen_listing import OPERANDS
from vlib.refnorm import decode_stream
from vlib.render import HEADER, inst_line
from vlib.runner import Eval

ID = "C18"
LEVEL = "exploration"
CGF_RUNS = {"thorough": 6000}  # coverage-guided stage (vlib/cgf.py): libFuzzer executions per worker, 16 workers
RULE = (
    "Ranges (min <= max, min = max, 1-16 hex digits, upper/lower case, with/without 0x on either bound, YAML strings) x listings of 3-14 instructions mixing direct call/jmp "
    "with targets at min-1, min, max, max+1, far inside/outside, other digit counts, leading zeros, 0x-prefixed and <sym>-annotated spellings; indirect call/jmp (*%reg, "
    "*disp(%rip), *(a,b,c)); conditional jumps; and non-branches carrying an in-range number as first operand (push $imm, mov abs, lea). Oracle per instruction: MUST-tag "
    "(mnemonic exactly call/jmp, direct, min <= T <= max numerically), MUST-NOT (out of range; indirect; non-branch), UNSPEC (conditional jumps, callq/jmpq). Checked on the "
    "stream (operands become exactly [valid_addr] vs unchanged; count, order, addresses unchanged) against the stream without the option, and through the rules "
    "call: [valid_addr] / jmp: [valid_addr] in all-matches address mode. Non-trivial: >= 1 target exactly on or adjacent to a bound; distinct by canonical hash."
)
ASSUMPTIONS = ["conditional jumps are not mentioned by the statement: whatever JASM does with them is accepted; callq/jmpq are the direct call/jmp with their size suffix spelled out and are judged like call/jmp, and so are the operand-size spellings callw/jmpw and calll/jmpl objdump itself prints", "targets are hexadecimal as objdump prints them"]
FLOORS = {"target=min": 0.15, "target=max": 0.15, "target=min-1": 0.15, "target=max+1": 0.15, "has-indirect": 0.2, "has-nonbranch-number": 0.2, "min=max": 0.05, "min=0": 0.06}


def budget(tier):
    return {"cases": 4000 if tier == "quick" else 80000}


def spell(draw, v, allow_upper=True):
    s = format(v, "x")
    if allow_upper and draw(st.integers(0, 3)) == 0:
        s = s.upper()
    if draw(st.integers(0, 4)) == 0:
        s = "0" * draw(st.integers(1, 3)) + s
    if draw(st.booleans()):
        s = ("0X" if allow_upper and draw(st.integers(0, 5)) == 0 else "0x") + s  # int(.., 16) reads 0X like 0x
    return s


@st.composite
def cases(draw):
    digits = draw(st.sampled_from([1, 2, 2, 3, 3, 4] + list(range(1, 17))))  # short addresses (objects, images linked low) as often as long ones
    # a range starting at address 0 is the normal shape for relocatable objects (`call 0 <f>`); drawn explicitly, it is one point
    lo = 0 if draw(st.integers(0, 7)) == 0 else draw(st.integers(1, 16 ** digits - 1))
    span = 0 if draw(st.integers(0, 5)) == 0 else draw(st.one_of(st.integers(1, 64), st.integers(1, 16 ** max(1, digits - 1))))
    hi = min(lo + span, 2 ** 64 - 2)
    lo = min(lo, hi)
    rng = {"min": spell(draw, lo), "max": spell(draw, hi)}
    style = draw(st.sampled_from([None, None, "intel", "intel", "att"]))
    insts = []
    n = draw(st.integers(3, 14))
    a = draw(st.sampled_from([0x10, 0x401000, 0xadd0]))
    for _ in range(n):
        kind = draw(st.sampled_from(["direct", "direct", "direct", "indirect", "cond", "nonbranch-number", "other", "q-suffixed"]))
        where = draw(st.sampled_from(["min-1", "min", "max", "max+1", "inside", "far-below", "far-above", "other-digits"]))
        T = {"min-1": lo - 1, "min": lo, "max": hi, "max+1": hi + 1, "inside": draw(st.integers(lo, hi)), "far-below": lo // 16, "far-above": min(2 ** 64 - 1, hi * 16 + 3), "other-digits": (lo * 16) % (2 ** 64)}[where]
        T = max(0, T)
        ts = format(T, "x")
        if draw(st.integers(0, 5)) == 0:
            ts = "0" * draw(st.integers(1, 2)) + ts
        if draw(st.integers(0, 3)) == 0:
            ts = "0x" + ts
        ann = draw(st.sampled_from(["", "", f" <f+0x{T % 4096:x}>", " <main>"]))
        addr = format(a, "x")
        if kind == "direct":
            m = draw(st.sampled_from(["call", "jmp"]))
            insts.append({"addr": addr, "m": m, "ops": [ts + ann], "kind": kind, "T": T, "where": where})
        elif kind == "q-suffixed":
            m = draw(st.sampled_from(["callq", "jmpq", "callw", "jmpw", "calll", "jmpl"]))  # callw/jmpw: what objdump 2.40 prints for 66 e8 / 66 e9; calll/jmpl: the same in 16-bit code
            insts.append({"addr": addr, "m": m, "ops": [ts + ann], "kind": kind, "T": T, "where": where})
        elif kind == "indirect":
            m = draw(st.sampled_from(["call", "jmp"]))
            op = draw(st.sampled_from(["*%rax", f"*0x{T:x}(%rip)", "*(%rax,%rbx,8)", f"*0x{T:x}", "*%r11"]))
            insts.append({"addr": addr, "m": m, "ops": [op], "kind": kind, "T": T, "where": where})
        elif kind == "cond":
            m = draw(st.sampled_from(["jne", "je", "jg", "jle", "jz", "jnz", "jb", "js", "jae"]))
            insts.append({"addr": addr, "m": m, "ops": [ts + ann], "kind": kind, "T": T, "where": where})
        elif kind == "nonbranch-number":
            m, ops = draw(st.sampled_from([("push", [f"$0x{T:x}"]), ("mov", [f"0x{T:x}", "%rax"]), ("lea", [f"0x{T:x}(%rip)", "%rax"]), ("mov", [f"$0x{T:x}", "%eax"]), ("cmp", [f"$0x{T:x}", "%rax"]),
                                           ("nopw", [f"0x{T:x}(%rax,%rax,1)"]), ("add", [f"{ts}"])]))
            insts.append({"addr": addr, "m": m, "ops": ops, "kind": kind, "T": T, "where": where})
        else:
            o = draw(st.lists(st.sampled_from([x[0] for x in OPERANDS]), max_size=2))
            m = draw(st.sampled_from(["mov", "add", "ret", "nop", "xor", "calls", "jmpf"]))
            insts.append({"addr": addr, "m": m, "ops": o, "kind": kind, "T": None, "where": None})
        a += draw(st.integers(1, 7))
    out = {"range": rng, "lo": lo, "hi": hi, "insts": insts}
    if style:
        out["style"] = style  # the listing is text: the style a rule asks objdump for must not matter
    return out


def strategy(tier):
    return cases()


def _range_binary():
    """A small linked ELF: calls / jumps between two functions and a call from a second section into the first."""
    from vlib.elfw import make_elf

    text = bytes.fromhex("55 4889e5 e80b000000 eb05 90 e8f3ffffff c3 90 4831c0 c3 eb01 c3".replace(" ", ""))
    hot = bytes.fromhex("50 e8 fa ef ff ff 58 e9 f4 ef ff ff c3".replace(" ", ""))
    return make_elf([(".text", text, True), (".text.hot", hot, True)], [("main", 1, 0), ("helper", 1, 0x15), ("hot", 2, 0)], addrs=[0x401000, 0x402000], etype=2)


def eval_binary_range(case):
    """The same rule - with a range that covers only part of the code - on the binary and on the text objdump prints for it: the
    range concerns branch TARGETS; it must not change which instructions there are (C15 for a rule that carries the option)."""
    from vlib.elfw import disassemble_object
    from vlib.refnorm import decode_stream

    ev = Eval()
    sc = jasm_io.scratch()
    path = sc.write("c18_range.elf", _range_binary())
    rc, text, _ = disassemble_object(path)
    tpath = sc.write("c18_range.s", text)
    lo, hi = case["binary_range"]
    cfg = {"valid_addr_range": {"min": lo, "max": hi}}
    ev.subcases = 0
    for rule in ([{"call": ["valid_addr"]}], [{"jmp": ["valid_addr"]}], ["ret"]):
        rp = sc.write("c18_range_rule.yaml", jasm_io.rule_text(jasm_io.make_doc(rule, config=cfg)))
        for mode, only in (("str", False), ("list", True)):
            b = jasm_io.match_files(rp, path, mode=mode, search="all", only_addr=only, binary=True)
            a = jasm_io.match_files(rp, tpath, mode=mode, search="all", only_addr=only, binary=False)
            ev.subcases += 1
            if a[:2] != b[:2]:
                ev.dev("binary-vs-text-with-range", range=[lo, hi], rule=rule, mode=mode, text_route=str(a[1])[:300], binary_route=str(b[1])[:300])
                break
    plain = jasm_io.match_files(sc.write("c18_range_rule.yaml", "pattern:\n  - zzzz\n"), path, mode="str", binary=True)
    ranged = jasm_io.match_files(sc.write("c18_range_rule.yaml", jasm_io.rule_text(jasm_io.make_doc(["zzzz"], config=cfg))), path, mode="str", binary=True)
    if plain[0] == "ok" and ranged[0] == "ok":
        dp, dr = decode_stream(plain[1]) or [], decode_stream(ranged[1]) or []
        if [(a_, m_) for a_, m_, _ in dp] != [(a_, m_) for a_, m_, _ in dr]:
            ev.dev("instructions-change-with-range", range=[lo, hi], without=len(dp), with_range=len(dr))
    ev.tags = ["binary-input-with-range"]
    ev.nontrivial = True
    ev.keys = [("binary-range", lo, hi)]
    return ev


def extra(tier, seed, rep):
    for rng in (("0x401015", "0x401015"), ("401010", "40101f"), ("0x402000", "0x402fff"), ("0x401000", "0x401005"), ("0", "0xffffffff"), ("401016", "401014")):
        case = {"binary_range": list(rng)}
        rep.add_eval(case, eval_binary_range(case))
    rep.exhaustive_parts.append("6 ranges (a single address, part of one function, another section, everything, inverted) on a linked ELF: binary route vs text route, instruction list with and without the option")


def evaluate(case):
    if "binary_range" in case:
        return eval_binary_range(case)
    ev = Eval()
    lo, hi = case["lo"], case["hi"]
    lines = list(HEADER)
    for i in case["insts"]:
        lines.append(inst_line(i["addr"], i["m"], i["ops"]))
    text = "\n".join(lines) + "\n"
    plain = jasm_io.stream_of(text)
    cfg = {"valid_addr_range": case["range"]}
    if case.get("style"):
        cfg["style"] = case["style"]
    tagged = jasm_io.stream_of(text, config=cfg)
    ev.subcases = 2
    ev.tags = sorted({f"target={i['where']}" for i in case["insts"] if i["kind"] == "direct"})
    if case.get("style"):
        ev.tags.append("style=" + case["style"])
    if any(i["kind"] == "indirect" for i in case["insts"]):
        ev.tags.append("has-indirect")
    if any(i["kind"] == "nonbranch-number" for i in case["insts"]):
        ev.tags.append("has-nonbranch-number")
    if lo == hi:
        ev.tags.append("min=max")
    if lo == 0:
        ev.tags.append("min=0")
        if any(i["kind"] == "direct" and i.get("T") == 0 for i in case["insts"]):
            ev.tags.append("direct-target-0")
    for r, what in ((plain, "without-option"), (tagged, "with-option")):
        if r[0] == "inconclusive":
            ev.inconclusive += 1
            return ev
        if r[0] == "exc":
            ev.dev("exception", which=what, error=list(r[1:]), range=case["range"])
            return ev
    P, Tg = decode_stream(plain[1]), decode_stream(tagged[1])
    if P is None or Tg is None or len(P) != len(case["insts"]):
        ev.dev("stream-malformed", plain=plain[1][:200])
        return ev
    if len(Tg) != len(P):
        ev.dev("instruction-count-changed", plain=len(P), tagged=len(Tg))
        return ev
    must = {"call": [], "jmp": []}
    for q, (i, p, t) in enumerate(zip(case["insts"], P, Tg)):
        if "valid_addr" in p[2]:
            ev.dev("rewritten-without-option", record=list(p))
            return ev
        if (t[0], t[1]) != (p[0], p[1]):
            ev.dev("address-or-mnemonic-changed", plain=list(p), tagged=list(t))
            return ev
        is_tagged = t[2] == ["valid_addr"]
        if i["kind"] in ("direct", "q-suffixed"):
            # callq / jmpq are the same direct call / jmp as older binutils and llvm-objdump print them (the repository's own
            # listings contain both spellings)
            should = lo <= i["T"] <= hi
            if should != is_tagged:
                ev.dev("wrong-tagging", instruction=[i["addr"], i["m"], i["ops"]], target=hex(i["T"]), range=case["range"], expected_tagged=should, observed=list(t))
                return ev
            if should and i["m"] in must:
                must[i["m"]].append(i["addr"])
        elif i["kind"] == "cond":
            if not is_tagged and t[2] != p[2]:
                ev.dev("operands-changed", plain=list(p), tagged=list(t))
                return ev
            if is_tagged and i["m"] in must:
                must[i["m"]].append(i["addr"])
        else:
            if t[2] != p[2]:
                ev.dev("tagged-or-changed-non-direct-branch", inst_kind=i["kind"], plain=list(p), tagged=list(t), range=case["range"])
                return ev
    # through the rules
    for m in ("call", "jmp"):
        doc = jasm_io.make_doc([{m: ["valid_addr"]}], mn_full=True, op_full=True, config=cfg)
        r = jasm_io.match(doc, text, mode="list", search="all", only_addr=True)
        ev.subcases += 1
        if r[0] != "ok":
            ev.dev("exception", which=f"rule {m}: [valid_addr]", error=list(r[1:]))
            return ev
        if r[1] != must[m]:
            ev.dev("rule-addresses", rule=f"{m}: [valid_addr]", expected=must[m], observed=r[1], range=case["range"])
            return ev
    ev.nontrivial = any(i["kind"] == "direct" and i["where"] in ("min", "max", "min-1", "max+1") for i in case["insts"])
    ev.sample = {"range": case["range"], "tagged_stream": tagged[1][:400]}
    return ev
