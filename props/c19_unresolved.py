"""C19 - every `@macro` reference is expanded or reported, never silently kept."""
import copy

import os

from hypothesis import assume, strategies as st

from vlib import jasm_io
from vlib.gen_macro import OPS, factor, item_slots, split_definitions
from vlib.runner import Eval
from props.c13_macros import base_rule

ID = "C19"
LEVEL = "exploration"
CGF_RUNS = {"thorough": 10000}  # coverage-guided stage (vlib/cgf.py): libFuzzer executions per worker, 16 workers
RULE = (
    "A valid macro rule from the C13 factoring generator (>= 1 definition, in the file and/or extra macro files) receives one fault (kind drawn first): a reference to a "
    "fresh undefined @name inserted as list item, as operand, as $deref field value, as dict key with a times body, as dict key with an operand body, under $or / $not, or "
    "inside the body of a macro that is listed before / after another macro, or spliced into a longer mnemonic/operand name (names include non-identifiers such as @64bit_, @8_); a reference to a macro that IS defined but is applied before its user (listed earlier, or from an extra file) - reported or expanded, never kept; a cyclic definition (a body that mentions its own macro, or two that mention each other); a used definition deleted; a used definition moved to an extra file that is not passed; a "
    "macro renamed so that its name lacks '@'. Control group: no fault. Oracle: faulted rule => Yaml2Regex(...).produce_regex() raises and the message names the "
    "reference (for the no-@ case: raises); control => compiles and the regex contains no '@'. Non-trivial: distinct (fault kind, definition placement) cells; distinct by canonical hash."
)
ASSUMPTIONS = ["names and operand vocabularies are @-free by construction, so an '@' in the regex can only come from an unexpanded reference"]
FAULTS = ["control", "control", "item", "operand", "deref-value", "key-times", "key-operands", "under-or", "under-not", "in-body-first", "in-body-last", "delete-def", "unpassed-file", "no-at-name", "alias-to-undefined", "shared-lib-second-rule", "in-name", "defined-but-applied-earlier", "cyclic", "in-name-next-to-defined", "in-name-next-to-defined"]
FLOORS = {f"fault={f}": 0.03 for f in set(FAULTS)}
FLOORS["library-rewritten-between-compilations"] = 0.01
FLOORS["reference-beside-list-macro-invocation"] = 0.01
FLOORS["supplied-macro-file-cannot-be-read"] = 0.01
UNDEF = ["@zz_", "@undefined_", "@nope_", "@64bit_", "@8_", "@2nd-op_", "@Q.x_"]  # also names that are not identifiers


def budget(tier):
    return {"cases": 4000 if tier == "quick" else 80000}


@st.composite
def cases(draw):
    fault = draw(st.sampled_from(FAULTS))
    L, pattern = draw(base_rule())
    factored, macros, kinds = factor(draw, pattern)
    assume(macros)
    u = draw(st.sampled_from(UNDEF))
    punct = [m_["name"] for m_ in macros if any(ch in m_["name"] for ch in ".-")]
    if punct and draw(st.integers(0, 2)) == 0:
        # the undefined name is the spelling of a DEFINED one with its '.' / '-' written as another character (`@reg_64` beside the
        # defined `@reg.64`): a different name, so it has no definition
        near = draw(st.sampled_from(punct))
        at = draw(st.sampled_from([z for z, ch in enumerate(near) if ch in ".-"]))
        cand = near[:at] + draw(st.sampled_from(["_", "x", "0"])) + near[at + 1:]
        if not any(cand in m_["name"] or m_["name"] in cand for m_ in macros):
            u = cand
    expect_name = u
    slots = item_slots(factored, [])
    items = [(c, i) for c, i, t in slots if t == "item"]
    opers = [(c, i) for c, i, t in slots if t == "operand"]
    if fault == "item":
        c, i = draw(st.sampled_from(items))
        c.insert(draw(st.integers(0, len(c))), u)
    elif fault == "operand":
        if opers:
            c, i = draw(st.sampled_from(opers))
            c.insert(draw(st.integers(0, len(c))), u)
        else:
            factored.append({"mov": ["rax", u]})
    elif fault == "deref-value":
        factored.append({"mov": [{"$deref": {"main_reg": draw(st.sampled_from([u, "%rax"])), "constant_offset": u}}]})
    elif fault == "key-times":
        c, i = draw(st.sampled_from(items))
        c.insert(draw(st.integers(0, len(c))), {u: {"times": draw(st.integers(1, 3))}})
    elif fault == "key-operands":
        c, i = draw(st.sampled_from(items))
        c.insert(draw(st.integers(0, len(c))), {u: ["rax"]})
    elif fault in ("under-or", "under-not"):
        node = draw(st.sampled_from([u, {"mov": [u]}, {u: {"times": 2}}]))
        wrapped = {"$or": [node, "nop"]} if fault == "under-or" else {"$not": [node]}
        c, i = draw(st.sampled_from(items))
        c.insert(draw(st.integers(0, len(c))), wrapped)
    elif fault in ("in-body-first", "in-body-last"):
        # a macro whose body mentions the undefined name, itself used by the rule; placed before / after all other definitions
        body_kind = draw(st.sampled_from(["item", "operand", "key-times"]))
        body = {"item": {"$and": ["push", u]}, "operand": {"mov": ["rax", u]}, "key-times": {"$and": [{u: {"times": 2}}, "ret"]}}[body_kind]
        newm = {"name": "@mz_", "pattern": [body]}
        factored.append("@mz_")
        macros = [newm] + macros if fault == "in-body-first" else macros + [newm]
    elif fault == "alias-to-undefined":
        # a string macro whose replacement text is (or contains) a reference that has no definition
        body = draw(st.sampled_from([u, "%" + u, "x" + u]))
        macros = macros + [{"name": "@alias_", "pattern": body}] if draw(st.booleans()) else [{"name": "@alias_", "pattern": body}] + macros
        if opers and draw(st.booleans()):
            c, i = draw(st.sampled_from(opers))
            c.insert(draw(st.integers(0, len(c))), "@alias_")
        else:
            c, i = draw(st.sampled_from(items))
            c.insert(draw(st.integers(0, len(c))), draw(st.sampled_from(["@alias_", {"mov": ["@alias_"]}])))
    elif fault == "shared-lib-second-rule":
        pass  # built in evaluate: the faulted rule is compiled after a valid rule that shares its extra macro file
    elif fault == "in-name":
        # the undefined reference is spliced into a longer mnemonic / operand name (substitution inside names is a supported use)
        where = draw(st.sampled_from(["mnemonic", "operand", "mnemonic-with-operands", "key-times"]))
        c, i = draw(st.sampled_from(items))
        node = {"mnemonic": "x" + u, "operand": {"mov": ["%" + u]}, "mnemonic-with-operands": {"re" + u: ["rax"]}, "key-times": {"no" + u: {"times": 2}}}[where]
        c.insert(draw(st.integers(0, len(c))), node)
    elif fault == "in-name-next-to-defined":
        # two references in ONE name: a defined string macro (expanded by splicing) and, in the same string, the undefined one - what is
        # left after the splice still has to be looked at
        sdef = {"name": "@ystr_", "pattern": draw(st.sampled_from(["[a-d]x", "r[0-9]+", "mov"]))}
        macros = macros + [sdef] if draw(st.booleans()) else [sdef] + macros
        text = draw(st.sampled_from(["x@ystr_" + u, "%@ystr_(" + u + ")", "mo@ystr_" + u, "p@ystr_" + "q" + u, "%" + u + "x@ystr_"]))
        where = draw(st.sampled_from(["mnemonic", "operand", "operand", "deref-value", "mnemonic-with-operands"]))
        c, i = draw(st.sampled_from(items))
        node = {"mnemonic": text, "operand": {"mov": [text]}, "deref-value": {"mov": [{"$deref": {"main_reg": text}}]}, "mnemonic-with-operands": {text: ["rax"]}}[where]
        c.insert(draw(st.integers(0, len(c))), node)
    elif fault == "defined-but-applied-earlier":
        # @yearly_ HAS a definition, but it is applied before the macro whose body mentions it (listed earlier, or supplied by an
        # extra macro file while its user is in the rule file): the reference must be reported or expanded, never survive
        body_kind = draw(st.sampled_from(["item", "operand", "key-times"]))
        body = {"item": {"$and": ["push", "@yearly_"]}, "operand": {"mov": ["rax", "@yearly_"]}, "key-times": {"$and": [{"@yearly_": {"times": 2}}, "ret"]}}[body_kind]
        factored.append("@yuser_")
        expect_name = "@yearly_"
    elif fault == "cyclic":
        # a macro whose body mentions itself, or two macros that mention each other: whatever expansion does, the reference
        # that is left over has to be reported (or be gone) - it must not be kept as a mnemonic / operand
        shape = draw(st.sampled_from(["self", "self-operand", "mutual"]))
        if shape == "self":
            cyc = [{"name": "@ycyc_", "pattern": [{"$or": ["nop", "@ycyc_"]}]}]
        elif shape == "self-operand":
            cyc = [{"name": "@ycyc_", "pattern": [{"mov": ["rax", "@ycyc_"]}]}]
        else:
            cyc = [{"name": "@ycyc_", "pattern": [{"$and": ["push", "@ycyd_"]}]}, {"name": "@ycyd_", "pattern": [{"$and": ["pop", "@ycyc_"]}]}]
            if draw(st.booleans()):
                cyc.reverse()
        pos = draw(st.integers(0, len(macros)))
        macros = macros[:pos] + cyc + macros[pos:]
        factored.append("@ycyc_")
        expect_name = None
    elif fault == "delete-def":
        k = draw(st.integers(0, len(macros) - 1))
        expect_name = macros[k]["name"]
        del macros[k]
        if not macros:
            macros = [{"name": "@spare_", "pattern": "spare"}]
    elif fault == "no-at-name":
        # a definition whose name lacks '@'; with probability 1/2 its uses are renamed too, so that nothing else is wrong with the rule
        k = draw(st.integers(0, len(macros) - 1))
        old = macros[k]["name"]
        new = old.lstrip("@")
        twin = draw(st.integers(0, 2))
        if twin == 0:
            # ... or the well-named definition stays where it is and the ill-named one is a second entry with the same name minus the
            # '@', after it or before it (`@ptr` in the library, `ptr` in the rule file): still a definition whose name lacks '@'
            extra_def = dict(macros[k], name=new)
            macros.insert(draw(st.integers(0, len(macros))), extra_def)
        else:
            macros[k] = dict(macros[k], name=new)
            if twin == 1:
                factored = _rename(factored, old, new)
                macros = [dict(m, pattern=_rename(m["pattern"], old, new)) for m in macros]
        expect_name = None
    in_file, files = split_definitions(draw, macros)
    if fault == "defined-but-applied-earlier":
        mb, mu = {"name": "@yearly_", "pattern": "pop"}, {"name": "@yuser_", "pattern": [body]}
        if draw(st.booleans()):
            pos = draw(st.integers(0, len(in_file)))
            in_file = in_file[:pos] + [mb] + in_file[pos:]
            in_file.insert(draw(st.integers(pos + 1, len(in_file))), mu)
        else:
            files = files + [[mb]] if draw(st.booleans()) else [[mb]] + files
            in_file.insert(draw(st.integers(0, len(in_file))), mu)
    dropped = None
    if fault == "unpassed-file":
        if files:
            k = draw(st.integers(0, len(files) - 1))
            dropped = files[k]
            del files[k]
        else:
            dropped = in_file[:1]
            in_file = in_file[1:]
        if not in_file and not files:
            in_file = [{"name": "@spare_", "pattern": "spare"}]
        expect_name = None  # some name of the dropped file; any of them may be reported
    placement = ("file" if in_file else "") + ("+extra" if files else "")
    return {"fault": fault, "factored": factored, "macros_in_file": in_file, "macro_files": files, "expect_name": expect_name,
            "dropped": [m["name"] for m in dropped] if dropped else None, "placement": placement}


def _rename(node, old, new):
    if isinstance(node, str):
        return node.replace(old, new)
    if isinstance(node, list):
        return [_rename(x, old, new) for x in node]
    if isinstance(node, dict):
        return {(k.replace(old, new) if isinstance(k, str) else k): _rename(v, old, new) for k, v in node.items()}
    return node


def strategy(tier):
    return cases()


def _library_rewritten(ev, sc, case):
    from vlib.render import render

    ev.tags.append("library-rewritten-between-compilations")
    lp = sc.write("c19_rw_listing.s", render([("10", "mov", ["%rax", "%rbx"]), ("13", "ret", [])]))
    v1 = jasm_io.dump_yaml({"macros": [{"name": "@rwlib_", "pattern": [{"$and": ["@rwinner_", "ret"]}]}, {"name": "@rwinner_", "pattern": "mov"}]})
    how = len(str(case["factored"])) % 3
    v2 = jasm_io.dump_yaml({"macros": [{"name": "@rwlib_", "pattern": [{"$and": ["@rwinner_", "ret"]}]}] + ([{"name": "@rwother_", "pattern": "mov"}] if how == 0 else [{"name": "rwinner_", "pattern": "mov"}] if how == 1 else [])})
    rp = sc.write("c19_rw_rule.yaml", jasm_io.rule_text(jasm_io.make_doc(["@rwlib_"] + [x for x in case["factored"] if isinstance(x, str) and "@" not in x][:1])))
    for entry in ("mop", "y2r"):
        lib = sc.write(f"c19_rw_lib_{entry}.yaml", v1)
        first = jasm_io.match_files(rp, lp, mode="bool", macros=[lib]) if entry == "mop" else jasm_io.compile_rule(open(rp).read(), macros=[lib])
        with open(lib, "w") as f:
            f.write(v2)
        second = jasm_io.match_files(rp, lp, mode="bool", macros=[lib]) if entry == "mop" else jasm_io.compile_rule(open(rp).read(), macros=[lib])
        ev.subcases = (ev.subcases or 0) + 2
        if first[0] != "ok":
            ev.dev("valid-macro-rule-rejected", entry=entry, error=list(first[1:]))
        elif second[0] == "ok":
            ev.dev("unresolved-reference-compiled-silently", fault="library-rewritten-between-compilations", entry=entry, library_now=v2, result=str(second[1])[:200])
        elif second[0] == "exc" and how != 1 and "@rwinner_" not in second[2]:
            ev.dev("error-does-not-name-the-reference", fault="library-rewritten-between-compilations", entry=entry, expected="@rwinner_", error=list(second[1:]))


def evaluate(case):
    ev = Eval()
    sc = jasm_io.scratch()
    paths = [sc.write(f"c19_macros_{q}.yaml", jasm_io.dump_yaml({"macros": f})) for q, f in enumerate(case["macro_files"])]
    doc = jasm_io.make_doc(case["factored"], macros=case["macros_in_file"] or None)
    r = jasm_io.compile_rule(doc, macros=paths or None)
    fault = case["fault"]
    if fault == "shared-lib-second-rule":
        # first a valid rule that defines @inner_, then - same process, same unchanged library file - a rule that does not
        lib = sc.write("c19_shared_lib.yaml", jasm_io.dump_yaml({"macros": [{"name": "@lib_", "pattern": [{"$and": ["@inner_", "ret"]}]}]}))
        first = jasm_io.compile_rule(jasm_io.make_doc(["@lib_"], macros=[{"name": "@inner_", "pattern": "mov"}]), macros=[lib] + paths)
        doc = jasm_io.make_doc(["@lib_"] + case["factored"], macros=case["macros_in_file"] or [{"name": "@spare_", "pattern": "spare"}])
        r = jasm_io.compile_rule(doc, macros=[lib] + paths)
        case = dict(case, expect_name="@inner_")
        if first[0] != "ok":
            ev.dev("valid-macro-rule-rejected", error=list(first[1:]))
            return ev
    if fault == "control" and len(jasm_io.dump_yaml(case["factored"])) % 3 == 1:
        # A reference written where the invocation of a macro drops it - an operand list under the key of a list-bodied macro, a
        # further key of the node, the value of a formal parameter the body never uses, a key beside `@strmacro: {times: n}`: that
        # part of the node never reaches the matcher, so the reference cannot be expanded and has to be reported (F43, F45) -
        # whether it has no definition, merely begins like a defined name, or is defined.
        ev.tags.append("reference-beside-list-macro-invocation")
        h = len(str(case["factored"]))
        kind = ("undefined", "begins-like-defined", "defined")[(h // 7) % 3]
        ref = {"undefined": "@zz_undefined", "begins-like-defined": "@yother_zz", "defined": "@yother_"}[kind]
        shapes = [
            ("operand-list", {"@ybeside_": [ref, "%eax"]}),
            ("sibling-key", {"@ybeside_": None, "zz": ref}),
            ("inner-key-with-times", {"@ybeside_": {"times": 1, "zz": [ref]}}),
            ("beside-other-invocation", {"@yother_": ["x"], "@ybeside_": [ref]}),
            ("unused-formal-inner", {"@yargs_": {"x_": "%ebx", "y_": ref}}),
            ("unused-formal-sibling", {"@yargs_": None, "x_": "%ebx", "y_": ref}),
            ("beside-string-macro-times", {"@ystr_": {"times": 1}, "note": ref}),
            ("surplus-in-list-under-args-macro", {"@yargs_": ["%ebx", "%ecx", ref]}),
            ("surplus-in-list-under-args-macro", {"@yargs_": ["%ebx", "%ecx", "zz", ref, "%eax"]}),
        ]
        shape, inv = shapes[h % len(shapes)]
        ev.tags += ["lost-reference=" + kind, "lost-shape=" + shape]
        lib = [{"name": "@ybeside_", "pattern": [{"$or": ["shl", "shr"]}]}, {"name": "@yother_", "pattern": [{"$or": ["rol", "ror"]}]},
               {"name": "@yargs_", "args": ["x_", "y_"], "pattern": [{"mov": ["x_", "%eax"]}]}, {"name": "@ystr_", "pattern": "sar"}]
        order = (h // 3) % 4  # which definition comes first decides which pass walks the node first
        lib = lib[order:] + lib[:order]
        r2 = jasm_io.compile_rule(jasm_io.make_doc(["mov", inv], macros=lib))
        ev.subcases = (ev.subcases or 0) + 1
        names = [m_["name"] for m_ in lib]
        invoked = next(k_ for k_ in inv if k_ in ("@ybeside_", "@yargs_", "@ystr_"))
        # (a defined reference whose definition is listed before the invoked macro's has been expanded by the time the invocation
        # replaces the node: what is dropped then is no reference any more, and an error about it need not name one)
        expanded_before = kind == "defined" and names.index("@yother_") < names.index(invoked)
        if r2[0] == "ok":
            # (the defined reference counts as expanded if what it stands for is in the regex more often than the invocation alone puts it there)
            expanded = expanded_before or (kind == "defined" and shape != "beside-other-invocation" and "rol" in r2[1])
            if not expanded:
                ev.dev("reference-neither-expanded-nor-reported" if kind != "undefined" else "unresolved-reference-compiled-silently",
                       fault="reference-beside-list-macro-invocation", reference=ref, shape=shape, invocation=inv, macros=lib, regex=r2[1][:300])
        elif r2[0] == "exc" and ref not in r2[2] and not expanded_before:
            ev.dev("error-does-not-name-the-reference", fault="reference-beside-list-macro-invocation", expected=ref, shape=shape, error=list(r2[1:]))
    if fault == "control" and len(jasm_io.dump_yaml(case["factored"])) % 3 == 2:
        # every macro file that was supplied is missing / a directory at the moment it is read, the rule has no macros of its own:
        # the references are neither expanded nor may they reach the matcher - the compilation has to fail
        ev.tags.append("supplied-macro-file-cannot-be-read")
        gone = sc.path("c19_gone_macros.yaml")
        if os.path.isdir(gone):
            os.rmdir(gone)
        if len(str(case["factored"])) % 2:
            os.mkdir(gone)
        r3 = jasm_io.compile_rule(jasm_io.make_doc(["@rwlib_", "ret"]), macros=[gone])
        ev.subcases = (ev.subcases or 0) + 1
        if r3[0] == "ok":
            ev.dev("unresolved-reference-compiled-silently", fault="supplied-macro-file-cannot-be-read", regex=r3[1][:300], survives="@" in r3[1])
        if os.path.isdir(gone):
            os.rmdir(gone)
    if fault == "control" and len(jasm_io.dump_yaml(case["factored"])) % 3 == 0:
        # The same rule text compiled twice with the same macro-file PATH, the file rewritten in between so that a reference loses
        # its definition: the second compilation must report it (through MasterOfPuppets and through Yaml2Regex).
        _library_rewritten(ev, sc, case)
    ev.tags = ev.tags + [f"fault={fault}", f"placement={case['placement']}"]
    ev.nontrivial = True
    ev.keys = [(fault, case["placement"], jasm_io.dump_yaml(case["factored"]))]
    ev.sample = {"fault": fault, "pattern": case["factored"], "macros_in_file": case["macros_in_file"], "macro_files": case["macro_files"], "outcome": list(r[:2])[:2] if r[0] != "ok" else ["ok", r[1][:200]]}
    if r[0] == "inconclusive":
        ev.inconclusive += 1
        return ev
    if fault == "control":
        if r[0] != "ok":
            ev.dev("valid-macro-rule-rejected", error=list(r[1:]))
        elif "@" in r[1]:
            ev.dev("at-sign-survives-in-regex", regex=r[1][:500])
        return ev
    if fault == "cyclic":
        if r[0] == "ok" and "@" in r[1]:
            ev.dev("reference-survives-in-regex", fault=fault, regex=r[1][:400])
        elif r[0] != "ok" and "@ycy" not in r[2]:
            ev.dev("error-does-not-name-the-reference", fault=fault, expected="@ycyc_ or @ycyd_", error=list(r[1:]))
        return ev
    if fault == "defined-but-applied-earlier":
        if r[0] == "ok" and "@" in r[1]:
            ev.dev("reference-survives-in-regex", fault=fault, expected_report_or_expansion=case["expect_name"], regex=r[1][:400])
        elif r[0] != "ok" and case["expect_name"] not in r[2]:
            ev.dev("error-does-not-name-the-reference", fault=fault, expected=case["expect_name"], error=list(r[1:]))
        return ev
    if r[0] == "ok":
        ev.dev("unresolved-reference-compiled-silently", fault=fault, expected_report=case["expect_name"] or case["dropped"], regex=r[1][:400], survives="@" in r[1])
        return ev
    msg = r[2]
    if case["expect_name"] is not None and fault != "delete-def":
        if case["expect_name"] not in msg:
            ev.dev("error-does-not-name-the-reference", fault=fault, expected=case["expect_name"], error=list(r[1:]))
    elif fault == "delete-def":
        # the deleted macro may have been used only inside another deleted-free body or not at all after nesting; it was used at creation time, so it must be named
        if case["expect_name"] not in msg:
            ev.dev("error-does-not-name-the-reference", fault=fault, expected=case["expect_name"], error=list(r[1:]))
    elif fault == "unpassed-file":
        if not any(nm in msg for nm in case["dropped"]):
            ev.dev("error-does-not-name-the-reference", fault=fault, expected=case["dropped"], error=list(r[1:]))
    return ev
