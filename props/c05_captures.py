"""C05 - capture groups bind consistently across a pattern."""
from hypothesis import assume, strategies as st

from vlib.gen_listing import OPERANDS, instruction_body
from vlib.gen_pattern import describe_inst, describe_operand, lit_ok
from vlib.matcheval import compare, stream_sample
from vlib.refmatch import FAMILIES, regcap_parts
from vlib.runner import Eval

ID = "C05"
LEVEL = "exploration"
CGF_RUNS = {"thorough": 6000}  # coverage-guided stage (vlib/cgf.py): libFuzzer executions per worker, 16 workers
RULE = (
    "Spine rules (2-7 elements) with 1-4 capture names of drawn kinds (instruction &i, operand &x, register family &genreg/&indreg/&stackreg/&basereg "
    "with/without width suffix, both documented spellings .8H/.8h) whose first occurrences lie on the spine and whose later occurrences may sit under "
    "$or / $not / operand-level $or; capture-free $or, $not and times groups are interleaved before and between capture sites. The listing is derived from "
    "the rule (a binding is drawn and every occurrence instantiated consistently), then one mutator drawn first: later occurrence replaced by a prefix/"
    "extension of the bound text, by another member of the family, by the right register at the wrong width, by a look-alike non-member, two names' "
    "bindings swapped, last operand of a captured instruction changed. Oracle: reference matcher with environments and an explicit register table. "
    "Non-trivial: some name has >= 2 occurrences and the case is expected-found or a near miss; distinct by canonical hash."
)
ASSUMPTIONS = [
    "capture definitions only on the executed-exactly-once spine",
    "captures in $deref fields: asserted on operands with exactly the rule's components (a capture field then binds exactly one component, modulo the optional %/0x prefix); a name is reused only in fields of the same kind (register / constant)",
    "register families: a,b,c,d x (r?x,e?x,?x,?h,?l); s,d x (r?i,e?i,?i,?il); sp and bp x (r?,e?,?,?l); .8H only exists for &genreg",
    "a register capture without suffix matches the bound register at any width",
]
KINDS = ["inst", "operand", "operand", "genreg", "genreg", "indreg", "stackreg", "basereg"]
MUTATORS = ["none", "none", "none", "prefix-ext", "prefix-ext", "other-member", "wrong-width", "non-member", "swap-names", "last-operand", "unrelated-op", "def-empty", "def-non-member", "def-wrong-width", "case-variant"]
FLOORS = {"kind=inst": 0.08, "kind=operand": 0.12, "kind=regfam": 0.16, "mut=prefix-ext": 0.06, "expect=found": 0.25, "near-miss": 0.3, "kind=deref-field": 0.06, "kind=deref-operator-capture": 0.04, "kind=ranged-occurrence-before-definition": 0.03, "kind=ranged-user-after-rebinding": 0.008, "deref-operator-capture=register-family": 0.01, "kind=many-names": 0.01, "mut=inst-extra-operand": 0.008, "mut=inst-operand-removed": 0.003, "kind=names-differ-in-case-only": 0.08, "deref-keys=permuted": 0.04}

# operands with prefix / extension relatives (att, norm)
RELATED = [
    [("$0x1", "0x1"), ("$0x10", "0x10"), ("$0x100", "0x100")],
    [("%r8", "%r8"), ("%r8d", "%r8d"), ("%r8w", "%r8w")],
    [("%di", "%di"), ("%dil", "%dil")],
    [("%si", "%si"), ("%sil", "%sil")],
    [("%xmm1", "%xmm1"), ("%xmm10", "%xmm10")],
    [("0x8(%rax)", "[%rax+0x8]"), ("(%rax)", "[%rax]")],
    [("%rax", "%rax"), ("%eax", "%eax"), ("%ax", "%ax"), ("%al", "%al")],
    [("%sp", "%sp"), ("%spl", "%spl")],
]
FAM_WIDTHS = {"&genreg": ["64", "32", "16", "8h", "8l"], "&indreg": ["64", "32", "16", "8l"], "&stackreg": ["64", "32", "16", "8l"], "&basereg": ["64", "32", "16", "8l"]}
NON_MEMBERS = {
    "&genreg": [("$0x10", "0x10"), ("%xmm0", "%xmm0"), ("%r10", "%r10"), ("%rsi", "%rsi"), ("%fs:0x28", "%fs:0x28"), ("(%rax)", "[%rax]"), ("%r8l", "%r8l")],
    "&indreg": [("%rax", "%rax"), ("%r8d", "%r8d"), ("$0x10", "0x10"), ("%rsp", "%rsp")],
    "&stackreg": [("%rbp", "%rbp"), ("%rsi", "%rsi"), ("$0x8", "0x8"), ("%es", "%es")],
    "&basereg": [("%rsp", "%rsp"), ("%rbx", "%rbx"), ("$0x8", "0x8"), ("%ebx", "%ebx")],
}
PLAIN_MN = ["mov", "add", "sub", "xor", "lea", "cmp", "test", "push", "pop", "and", "or", "imul"]


def budget(tier):
    return {"cases": 5000 if tier == "quick" else 100000}


def spell_width(draw, w):
    if w in ("8h", "8l") and draw(st.booleans()):
        return w.upper()
    return w


@st.composite
def cases(draw):
    mut = draw(st.sampled_from(MUTATORS))
    full = draw(st.sampled_from([(False, False), (False, False), (False, False), (True, False), (False, True), (True, True)]))
    nnames = draw(st.integers(1, 3))
    names = []
    # 'different names are independent' also when they differ only in letter case (&Src / &src / &SRC, &genreg-A / &genreg-a)
    by_case = nnames >= 2 and draw(st.integers(0, 2)) == 0
    for q in range(nnames):
        kind = draw(st.sampled_from(KINDS))
        if mut == "prefix-ext" and q == 0:
            kind = "operand"
        if kind == "inst":
            m, oa, on = draw(instruction_body())
            assume(" " not in "".join(oa))
            names.append({"kind": "inst", "name": "&" + ["Src", "src", "SRC"][q] if by_case else f"&i{q}", "bind": [m, oa, on]})
        elif kind == "operand":
            grp = draw(st.sampled_from(RELATED)) if (draw(st.booleans()) or mut == "prefix-ext") else [draw(st.sampled_from(OPERANDS))]
            o = draw(st.sampled_from(grp))
            # (ordinary names that look like a register family without being one of the four: a capture called after what it tracks)
            lookalike = not by_case and draw(st.integers(0, 5)) == 0
            names.append({"kind": "operand", "name": "&" + ["Src", "src", "SRC"][q] if by_case else ["&framereg-old.64", "&framereg-old.32", "&framereg"][q] if lookalike else f"&x{q}",
                          "bind": list(o), "group": [list(g) for g in grp]})
        else:
            fam = "&" + kind
            reg = draw(st.sampled_from(sorted(FAMILIES[fam])))
            tag = ["-A", "-a", "-Aa"][q] if by_case else draw(st.sampled_from(["", f"-{q}", f"-{'abc'[q]}", f".acc{q}", f".x.y{q}"]))
            names.append({"kind": "regfam", "fam": fam, "name": fam + tag, "bind": reg})
    # distinct capture keys
    assume(len({n["name"] for n in names}) == len(names))
    # ---- spine
    spine = []  # list of (pattern node, [instruction bodies])
    occurrences = {n["name"]: 0 for n in names}
    sites = []  # (spine index, operand index or None, name index) of later occurrences
    defs = []  # (spine index, operand index, name index, width suffix or None) of first occurrences at operand level

    used_shipped = []

    def free_group():
        b = draw(instruction_body())
        assume(" " not in "".join(b[1]))
        d = describe_inst(draw, ("0", b[0], b[2]), full)
        which = draw(st.sampled_from(["item", "$or", "$not", "times", "$not-times", "$or-times", "$and-times", "$and_any_order", "shipped-macro"]))
        if which == "item":
            return d, [list(b)]
        if which == "shipped-macro":
            # a capture-free use of the shipped macro library before / between capture sites: whatever it expands to must
            # not contain a capturing group of its own (group numbers are registration order)
            used_shipped.append(True)
            if draw(st.booleans()):
                return "@any_shift", [[draw(st.sampled_from(["shr", "shl", "sal", "sar"])), ["$0x2", "%rdx"], ["0x2", "%rdx"]]]
            return "@any_rot", [[draw(st.sampled_from(["rol", "ror"])), ["%cl", "%rdx"], ["%cl", "%rdx"]]]
        if which == "$or":
            alts = [d, "zz"] if draw(st.booleans()) else [{"qq": ["zz"]}, d]
            return {"$or": alts}, [list(b)]
        if which == "$not":
            return {"$not": [draw(st.sampled_from(["zz", {"qq": ["zz"]}, {"$or": ["zz", "qq"]}]))]}, [list(b)]
        r = draw(st.integers(1, 3))
        tv = r if draw(st.booleans()) else {"min": draw(st.integers(0, r)), "max": r}
        if which == "$not-times":
            return {"$not": ["zz"], "times": tv}, [list(b) for _ in range(r)]
        if which == "$or-times":
            return {"$or": [d, "zz"], "times": tv}, [list(b) for _ in range(r)]
        if which == "$and-times":
            return {"$and": [d], "times": tv}, [list(b) for _ in range(r)]
        if which == "$and_any_order":
            b2 = draw(instruction_body())
            assume(" " not in "".join(b2[1]))
            d2 = describe_inst(draw, ("0", b2[0], b2[2]))
            return {"$and_any_order": [d2, d]}, [list(b), list(b2)]
        node = {d: {"times": tv}} if isinstance(d, str) else dict(d, times=tv)
        return node, [list(b) for _ in range(r)]

    def reg_operand(n, width):
        nm = FAMILIES[n["fam"]][n["bind"]][width]
        return "%" + nm

    total_occ = draw(st.integers(2, 3))
    plan = []
    for qi, n in enumerate(names):
        plan += [qi] * total_occ
    plan = list(draw(st.permutations(plan)))
    # group consecutive operand-level occurrences into shared instructions
    k = 0
    while k < len(plan):
        if draw(st.integers(0, 2)) == 0:
            node, insts = free_group()
            spine.append([node, insts, None])
        qi = plan[k]
        n = names[qi]
        if n["kind"] == "inst":
            first = occurrences[n["name"]] == 0
            occurrences[n["name"]] += 1
            node = n["name"]
            if not first and draw(st.integers(0, 3)) == 0:
                node = {"$or": [n["name"], "zz"]} if draw(st.booleans()) else {"$or": [{"qq": ["zz"]}, n["name"]]}
            # (a copy of its own per occurrence: the mutators below change ONE later occurrence in place)
            spine.append([node, [[n["bind"][0], list(n["bind"][1]), list(n["bind"][2])]], None])
            if not first:
                sites.append((len(spine) - 1, None, qi))
            k += 1
            continue
        # an instruction carrying 1..3 operand-level occurrences (this and following operand/regfam entries of the plan)
        take = [qi]
        while k + len(take) < len(plan) and len(take) < 3 and names[plan[k + len(take)]]["kind"] != "inst" and draw(st.booleans()):
            take.append(plan[k + len(take)])
        m = draw(st.sampled_from(PLAIN_MN))
        pats, oa, on = [], [], []
        any_later_wrapped = False
        for t in take:
            nn = names[t]
            # optional plain operand before
            if draw(st.integers(0, 3)) == 0:
                o = draw(st.sampled_from(OPERANDS))
                d = describe_operand(draw, o[1], full[1])
                if d is not None:
                    pats.append(d)
                    oa.append(o[0])
                    on.append(o[1])
            first = occurrences[nn["name"]] == 0
            occurrences[nn["name"]] += 1
            if nn["kind"] == "operand":
                p = nn["name"]
                oa.append(nn["bind"][0])
                on.append(nn["bind"][1])
            else:
                widths = FAM_WIDTHS[nn["fam"]]
                w = draw(st.sampled_from(widths))
                use_suffix = draw(st.integers(0, 3)) > 0 if not first else draw(st.booleans())
                p = nn["name"] + ("." + spell_width(draw, w) if use_suffix else "")
                oa.append(reg_operand(nn, w))
                on.append(reg_operand(nn, w))
            if first:
                defs.append((len(spine), len(on) - 1, t, (w if use_suffix else None) if nn["kind"] == "regfam" else None))
            if not first:
                sites.append((len(spine), len(on) - 1, t))
                if draw(st.integers(0, 4)) == 0:
                    p = {"$or": [p, "zz"]} if draw(st.booleans()) else {"$or": ["qq", p]}
                    any_later_wrapped = True
            pats.append(p)
        if draw(st.integers(0, 2)) == 0:
            o = draw(st.sampled_from(OPERANDS))
            oa.append(o[0])
            on.append(o[1])
        node = {m: pats}
        only_later = all(s[0] == len(spine) for s in sites[-len(take):]) and len([s for s in sites if s[0] == len(spine)]) == len(take)
        if only_later and draw(st.integers(0, 5)) == 0:
            node = {"$or": [node, "zz"]}
        spine.append([node, [[m, oa, on]], None])
        k += len(take)
    if draw(st.integers(0, 2)) == 0:
        node, insts = free_group()
        spine.append([node, insts, None])
    # ---- mutate one later occurrence
    applied = "none"
    if mut.startswith("def-") and defs:
        si, oi, qi, wsfx = draw(st.sampled_from(defs))
        n = names[qi]
        inst = spine[si][1][0]
        if mut == "def-empty" and oi == 0:
            # the defining instruction has no operand at all: nothing to bind
            inst[1], inst[2] = [], []
            applied = "def-empty"
        elif n["kind"] == "regfam" and mut == "def-non-member":
            o = draw(st.sampled_from(NON_MEMBERS[n["fam"]]))
            inst[1][oi], inst[2][oi] = o[0], o[1]
            applied = "def-non-member"
        elif n["kind"] == "regfam" and mut == "def-wrong-width" and wsfx is not None:
            table = FAMILIES[n["fam"]][n["bind"]]
            ws = [w for w in table if w != wsfx]
            w = draw(st.sampled_from(ws))
            inst[1][oi] = inst[2][oi] = "%" + table[w]
            applied = "def-wrong-width"
    elif mut != "none" and sites:
        pref = [t for t in sites if names[t[2]]["kind"] == "operand"] if mut == "prefix-ext" else []
        si, oi, qi = draw(st.sampled_from(pref or sites))
        n = names[qi]
        inst = spine[si][1][0]
        if mut == "case-variant":
            # the later occurrence differs from the bound text in the case of one letter only: not identical text
            if n["kind"] == "inst":
                inst[0] = inst[0][:-1] + inst[0][-1].upper() if inst[0][-1].islower() else inst[0] + "X"
                applied = "case-variant"
            else:
                cur = inst[2][oi]
                att = inst[1][oi]
                pos_ = [z for z, ch in enumerate(cur) if ch.isalpha() and ch.islower()]
                if pos_ and att.lstrip("$") == cur:  # registers and immediates: the listing text and the normal form coincide
                    z = pos_[-1]
                    new_ = cur[:z] + cur[z].upper() + cur[z + 1:]
                    inst[1][oi] = att[: len(att) - len(cur)] + new_
                    inst[2][oi] = new_
                    applied = "case-variant"
        elif n["kind"] == "inst":
            if (mut in ("other-member", "non-member") or (mut in ("last-operand", "unrelated-op", "wrong-width", "prefix-ext") and draw(st.booleans()))) and len(inst[1]) < 4 and " " not in "".join(inst[1]):
                # the later instruction is the bound one plus ONE MORE operand at the end (`imul %rbx` / `imul %rbx,%rax`): not the
                # same text; or one operand fewer
                o = draw(st.sampled_from(OPERANDS))
                if inst[1] and draw(st.integers(0, 2)) == 0:
                    inst[1].pop()
                    inst[2].pop()
                    applied = "inst-operand-removed"
                else:
                    inst[1].append(o[0])
                    inst[2].append(o[1])
                    applied = "inst-extra-operand"
            elif mut in ("last-operand", "prefix-ext", "unrelated-op", "other-member", "non-member", "wrong-width") and inst[1]:
                o = draw(st.sampled_from(OPERANDS))
                if o[1] != inst[2][-1]:
                    inst[1][-1], inst[2][-1] = o[0], o[1]
                    applied = "last-operand"
            elif mut == "swap-names" or not inst[1]:
                inst[0] = inst[0] + "l"
                applied = "mnemonic-ext"
        elif n["kind"] == "operand":
            if mut == "prefix-ext":
                grp = [g for g in n.get("group", []) if g[1] != n["bind"][1]]
                if not grp:
                    b = n["bind"]
                    grp = [[b[0] + "0", b[1] + "0"]] if b[1].startswith(("0x", "%")) else []
                if grp:
                    g = draw(st.sampled_from(grp))
                    inst[1][oi], inst[2][oi] = g[0], g[1]
                    applied = "prefix-ext"
            elif mut == "swap-names":
                others = [x for x in names if x["kind"] == "operand" and x["name"] != n["name"] and x["bind"][1] != n["bind"][1]]
                if others:
                    o = others[0]["bind"]
                    inst[1][oi], inst[2][oi] = o[0], o[1]
                    applied = "swap-names"
            else:
                o = draw(st.sampled_from(OPERANDS))
                if o[1] != n["bind"][1]:
                    inst[1][oi], inst[2][oi] = o[0], o[1]
                    applied = "unrelated-op"
        else:
            fam = n["fam"]
            table = FAMILIES[fam]
            cur = inst[2][oi]
            if mut == "other-member" and len(table) > 1:
                other = draw(st.sampled_from([r for r in sorted(table) if r != n["bind"]]))
                wcur = [w for w, nm in table[n["bind"]].items() if "%" + nm == cur][0]
                if wcur in table[other]:
                    inst[1][oi] = inst[2][oi] = "%" + table[other][wcur]
                    applied = "other-member"
            elif mut in ("wrong-width", "prefix-ext"):
                ws = [w for w, nm in table[n["bind"]].items() if "%" + nm != cur]
                if ws:
                    w = draw(st.sampled_from(ws))
                    inst[1][oi] = inst[2][oi] = "%" + table[n["bind"]][w]
                    applied = "wrong-width"
            elif mut in ("non-member", "unrelated-op", "last-operand", "swap-names"):
                o = draw(st.sampled_from(NON_MEMBERS[fam]))
                inst[1][oi], inst[2][oi] = o[0], o[1]
                applied = "non-member"
    elif mut == "non-member":
        # also attack a *defining* site of a register-family capture: the first occurrence must be a member at its width
        pass
    pattern = [s[0] for s in spine]
    bodies = [b for s in spine for b in s[1]]
    pre = []
    for _ in range(draw(st.integers(0, 2))):
        b = draw(instruction_body())
        if " " not in "".join(b[1]):
            pre.append(list(b))
    a = draw(st.sampled_from([0x0, 0x400, 0x401000, 0xadd0]))
    L = []
    for m, oa, on in pre + bodies:
        L.append([format(a, "x"), m, list(oa), list(on)])
        a += draw(st.integers(1, 7))
    multi = any(v >= 2 for v in occurrences.values())
    return {"flags": list(full), "mut": applied if mut != "none" else "none", "asked": mut, "listing": L, "pattern": pattern, "kinds": sorted({n["kind"] for n in names}) + (["names-differ-in-case-only"] if by_case else []), "multi": multi,
            "shipped": bool(used_shipped)}


# ---------------------------------------------------------------------------------- captures in $deref fields
DC_SHAPES = [("main_reg",), ("main_reg", "constant_offset"), ("main_reg", "register_multiplier", "constant_multiplier"),
             ("main_reg", "register_multiplier", "constant_multiplier", "constant_offset")]
DC_REGS = ["%rax", "%rbx", "%rcx", "%rdx", "%rsi", "%rdi", "%rbp", "%r8", "%r9", "%r12", "%r13", "%eax", "%ebx"]
DC_OFFS = ["0x8", "0x10", "0x18", "0x100", "-0x8", "-0x10", "0x4", "0x2"]
DC_SCALES = ["1", "2", "4", "8"]
DC_MN = ["mov", "lea", "add", "cmp", "movq", "sub"]
DC_MUT = ["none", "none", "none", "cap-component", "cap-component", "lit-component", "swap-values", "shape"]


def _dc_texts(comps):
    fields = [f for f in ("main_reg", "register_multiplier", "constant_multiplier", "constant_offset") if f in comps]
    a, k = comps["main_reg"], comps.get("constant_offset")
    if "register_multiplier" in comps:
        att = f"{k or ''}({a},{comps['register_multiplier']},{comps['constant_multiplier']})"
        norm = f"[{a}+{comps['register_multiplier']}*{comps['constant_multiplier']}" + (f"+{k}]" if k else "]")
    else:
        att = f"{k or ''}({a})"
        norm = f"[{a}+{k}]" if k else f"[{a}]"
    return fields, att, norm


def _dc_value(draw, field, avoid=None):
    pool = DC_REGS if field in ("main_reg", "register_multiplier") else DC_SCALES if field == "constant_multiplier" else DC_OFFS
    if field == "register_multiplier":
        pool = [r for r in pool if r not in ("%rsp", "%esp")]
    return draw(st.sampled_from([v for v in pool if v != avoid]))


def _dc_strip(v):
    v = str(v)
    if v.startswith("%"):
        return v[1:]
    if v.startswith("0x"):
        return v[2:]
    return v


@st.composite
def deref_capture_cases(draw):
    """Two or three instructions whose memory operands are described by $deref items with capture names in some fields,
    the fields written in a drawn key order; later items refer to the same names (in the same or in another field of the
    same kind)."""
    mut = draw(st.sampled_from(DC_MUT))
    shape = draw(st.sampled_from(DC_SHAPES))
    nitems = draw(st.integers(2, 3))
    comps0 = {f: _dc_value(draw, f) for f in shape}
    if "register_multiplier" in comps0 and comps0["register_multiplier"][1] != comps0["main_reg"][1]:
        comps0["register_multiplier"] = draw(st.sampled_from([r for r in DC_REGS if r[1] == comps0["main_reg"][1]]))  # same address size
    ncap = draw(st.integers(1, len(shape)))
    capfields = list(draw(st.permutations(list(shape))))[:ncap]
    if mut == "swap-values":
        # needs two captured fields of the same kind or any two captured fields
        capfields = list(shape)[:] if len(shape) >= 2 else capfields
    names = {f: f"&d{n}" for n, f in enumerate(capfields)}
    # a register field may hold a register-family capture instead (a designed use: the family regexes end in a look-ahead for
    # , + * ]): every occurrence then names the same architectural register at the width of its suffix
    regcap = {}
    for f in ("main_reg", "register_multiplier"):
        if f in names and draw(st.integers(0, 1)) == 0:
            hit = [(fam, reg, w) for fam, table in FAMILIES.items() for reg, ws in table.items() for w, nm in ws.items() if "%" + nm == comps0[f]]
            if hit:
                fam, reg, w = hit[0]
                key = f"{fam}-{len(regcap) + 1}"
                regcap[f] = {"fam": fam, "key": key, "width": w}
                names[f] = key
    items, window, comps_list = [], [], []
    for k in range(nitems):
        comps = dict(comps0)
        fields = {}
        for f in shape:
            if f in regcap and (k == 0 or draw(st.integers(0, 3)) > 0):
                rc_ = regcap[f]
                sfx = "." + rc_["width"] if draw(st.integers(0, 2)) > 0 else ""
                fields[f] = ["reg", rc_["key"] + sfx]
            elif f in names and f not in regcap and (k == 0 or draw(st.integers(0, 3)) > 0):
                fields[f] = ["cap", names[f]]
            else:
                v = comps[f]
                spelled = _dc_strip(v) if draw(st.booleans()) else v
                if f == "constant_offset" and v.startswith("-"):
                    spelled = v
                fields[f] = ["lit", spelled]
        if k > 0 and not any(v[0] in ("cap", "reg") for v in fields.values()):
            f = draw(st.sampled_from(sorted(names)))
            fields[f] = ["reg", regcap[f]["key"]] if f in regcap else ["cap", names[f]]
        order = list(draw(st.permutations(list(shape))))
        mn = draw(st.sampled_from(DC_MN))
        other = draw(st.sampled_from(["%rax", "%rcx", "%r10", "$0x1", "%edx"]))
        pos = draw(st.integers(0, 1))
        items.append({"mn": mn, "pos": pos, "fields": fields, "order": order, "other": other})
        comps_list.append(comps)
    # mutate the operand of a later instruction
    applied = "none"
    if mut != "none":
        k = draw(st.integers(1, nitems - 1))
        it = items[k]
        c = comps_list[k]
        if mut == "cap-component":
            fs = [f for f, v in it["fields"].items() if v[0] in ("cap", "reg")]
            f = draw(st.sampled_from(fs))
            c[f] = _dc_value(draw, f, avoid=c[f])
            applied = mut
        elif mut == "lit-component":
            fs = [f for f, v in it["fields"].items() if v[0] == "lit"]
            if fs:
                f = draw(st.sampled_from(fs))
                c[f] = _dc_value(draw, f, avoid=c[f])
                applied = mut
        elif mut == "swap-values":
            pairs = [("main_reg", "register_multiplier")] if "register_multiplier" in c else []
            if pairs and c["main_reg"] != c["register_multiplier"]:
                c["main_reg"], c["register_multiplier"] = c["register_multiplier"], c["main_reg"]
                applied = mut
        elif mut == "shape":
            if "constant_offset" in c:
                del c["constant_offset"]
            else:
                c["constant_offset"] = draw(st.sampled_from(DC_OFFS))
            applied = mut
    tail = None
    if regcap and draw(st.booleans()):
        f = sorted(regcap)[0]
        rc_ = regcap[f]
        table = FAMILIES[rc_["fam"]]
        reg = [r for r, ws in table.items() if "%" + ws.get(rc_["width"], "") == comps0[f]][0]
        w2 = draw(st.sampled_from(sorted(table[reg])))
        shown = "%" + table[reg][w2]
        if mut == "cap-component" and draw(st.booleans()):
            other = draw(st.sampled_from([r for r in sorted(table) if r != reg and w2 in table[r]] or [reg]))
            shown = "%" + table[other][w2]
            applied = "tail-other-register"
        tail = {"mn": draw(st.sampled_from(DC_MN)), "name": rc_["key"] + "." + (w2.upper() if w2 in ("8h", "8l") and draw(st.booleans()) else w2), "fam": rc_["fam"], "shown": shown}
    pattern = []
    for it in items:
        d = {"$deref": {f: it["fields"][f][1] for f in it["order"]}}
        if it["pos"] == 0:
            ops = [d] + ([it["other"].lstrip("$")] if draw(st.booleans()) else [])
        else:
            ops = [it["other"].lstrip("$"), d]
        pattern.append({it["mn"]: ops})
    L, comps_idx = [], []
    a = draw(st.sampled_from([0x0, 0x400, 0x401000]))

    def put(m, oa, on, comps):
        nonlocal a
        L.append([format(a, "x"), m, oa, on])
        comps_idx.append(comps)
        a += draw(st.integers(1, 7))

    for _ in range(draw(st.integers(0, 2))):
        put("nop", [], [], None)
    for it, c in zip(items, comps_list):
        _, att, norm = _dc_texts(c)
        o_att, o_norm = it["other"], it["other"].lstrip("$")
        if it["pos"] == 0:
            put(it["mn"], [att, o_att], [norm, o_norm], {"pos": 0, "comps": c})
        else:
            put(it["mn"], [o_att, att], [o_norm, norm], {"pos": 1, "comps": c})
    if tail is not None:
        pattern.append({tail["mn"]: [tail["name"]]})
        put(tail["mn"], [tail["shown"], "%r11"], [tail["shown"], "%r11"], {"plain": True})
    for _ in range(draw(st.integers(0, 2))):
        put("ret", [], [], None)
    return {"form": "deref-capture", "tail": tail, "mut": applied if mut != "none" else "none", "asked": mut, "items": items, "pattern": pattern, "listing": L, "comps": comps_idx,
            "key_order_canonical": all(it["order"] == [f for f in ("main_reg", "register_multiplier", "constant_multiplier", "constant_offset") if f in it["order"]] for it in items)}


def _dc_spans(case):
    """Component-wise oracle: item k describes instruction i+k; literal fields equal the component (optional %/0x),
    captured fields carry the same text (modulo the optional %/0x prefix) wherever the name occurs."""
    L, items, comps = case["listing"], case["items"], case["comps"]
    spans = {}
    for i in range(len(L) - len(items) + 1):
        env = {}
        ok = True
        for k, it in enumerate(items):
            rec, meta = L[i + k], comps[i + k]
            if meta is None or "comps" not in meta or it["mn"] not in rec[1] or meta["pos"] != it["pos"] or set(meta["comps"]) != set(it["fields"]):
                ok = False
                break
            pat_ops = case["pattern"][k][it["mn"]]
            for q, p in enumerate(pat_ops):
                if isinstance(p, str) and (q >= len(rec[3]) or p not in rec[3][q]):
                    ok = False
            for f, (kind, v) in it["fields"].items():
                have = _dc_strip(meta["comps"][f])
                if kind == "reg":
                    fam_table, key, width = regcap_parts(v)
                    regs = [r for r, ws in fam_table.items() for w, nm in ws.items() if nm == have and (width is None or w == width)]
                    if not regs:
                        ok = False
                    elif key in env:
                        ok = ok and env[key] == ("R", regs[0])
                    else:
                        env[key] = ("R", regs[0])
                elif kind == "lit":
                    ok = ok and _dc_strip(v) == have
                elif v in env:
                    ok = ok and env[v] == have
                else:
                    env[v] = have
            if not ok:
                break
        tail = case.get("tail")
        n_ = len(items)
        if ok and tail is not None:
            # the trailing plain operand: the same register at the width of its own suffix
            if i + n_ >= len(L):
                ok = False
            else:
                rec = L[i + n_]
                fam_table, key, width = regcap_parts(tail["name"])
                op = rec[3][0][1:] if rec[3] and rec[3][0].startswith("%") else None
                regs = [r for r, ws in fam_table.items() for w, nm in ws.items() if nm == op and (width is None or w == width)]
                ok = tail["mn"] in rec[1] and bool(regs) and env.get(key) == ("R", regs[0])
            n_ += 1
        if ok:
            spans[i] = {i + n_}
    return spans


DO_REGS = ["%rbx", "%r8", "%r12", "%rax", "%rcx", "%rsi", "%r9"]
DO_EXT = {"%r8": "%r8d", "%r12": "%r12d", "%r9": "%r9d"}


@st.composite
def deref_operator_capture_cases(draw):
    """A plain capture bound on the spine by a whole operand, and a LATER occurrence of it inside a logical operator inside a
    $deref field written in list form (main_reg: [ {$or: ["&r", "%rbp"]} ], the shape of tests/yamls/logic_operators_inside_deref.yaml):
    the memory operand is accepted exactly when its base is the bound text (or, for $or, the literal alternative)."""
    pushed = draw(st.sampled_from(DO_REGS))
    # a third of the cases: a register-family capture instead of a plain one (defined by a 64-bit register, so that the later
    # occurrence - with or without its .64 suffix - stands for the same text)
    regfam = draw(st.integers(0, 2)) == 0
    cap, cap_later = "&r", "&r"
    if regfam:
        fam, pushed = draw(st.sampled_from([("&genreg", "%rbx"), ("&genreg", "%rax"), ("&genreg", "%rcx"), ("&indreg", "%rsi"), ("&genreg-y", "%rbx")]))
        cap = fam
        cap_later = fam + draw(st.sampled_from(["", ".64"]))
    lit = draw(st.sampled_from([r for r in ["%rbp", "%rdi", "%r10"] if r != pushed]))
    op = draw(st.sampled_from(["$or", "$or", "$or", "$and", "$and_any_order"]))
    how = draw(st.sampled_from(["bound", "bound", "literal", "other", "extension"]))
    base = {"bound": pushed, "literal": lit, "other": draw(st.sampled_from([r for r in DO_REGS if r not in (pushed,)])), "extension": DO_EXT.get(pushed, "%rdx")}[how]
    off = draw(st.sampled_from(["0x8", "0x10", None, "-0x8"]))
    off_shown = off if draw(st.integers(0, 4)) else draw(st.sampled_from([o for o in ["0x8", "0x18", None] if o != off]))
    lit_spelled = lit if draw(st.booleans()) else lit[1:]
    alts = [cap_later, lit_spelled] if op == "$or" else [cap_later]
    if op == "$or" and draw(st.booleans()):
        alts = [lit_spelled, cap_later]
    if op == "$or" and draw(st.integers(0, 2)) == 0:
        alts.insert(draw(st.integers(0, len(alts))), "%r15")
    fields = {"main_reg": [{op: alts}]}
    if off is not None:
        fields["constant_offset"] = off if draw(st.booleans()) or off.startswith("-") else off[2:]
        if draw(st.booleans()):
            fields = {"constant_offset": fields["constant_offset"], "main_reg": fields["main_reg"]}
    m0 = draw(st.sampled_from(["push", "pop", "inc", "neg"]))
    m1 = draw(st.sampled_from(DC_MN))
    other = draw(st.sampled_from(["%rax", "%r10", "%edx"]))
    pos = draw(st.integers(0, 1))
    d = {"$deref": fields}
    pattern = [{m0: [cap]}, {m1: [d, other] if pos == 0 else [other, d]}]
    mem_att = f"{off_shown or ''}({base})"
    mem_norm = f"[{base}+{off_shown}]" if off_shown else f"[{base}]"  # stream normal form keeps "+-0x8" for a negative offset
    third = None
    if draw(st.integers(0, 2)) == 0:
        third = pushed if draw(st.booleans()) else draw(st.sampled_from(DO_REGS))
        pattern.append({"xchg": [cap_later]})
    L = []
    a = 0x401000
    for _ in range(draw(st.integers(0, 2))):
        L.append([format(a, "x"), "nop", [], []]); a += 1
    L.append([format(a, "x"), m0, [pushed], [pushed]]); a += 2
    L.append([format(a, "x"), m1, [mem_att, other] if pos == 0 else [other, mem_att], [mem_norm, other] if pos == 0 else [other, mem_norm]]); a += 4
    if third is not None:
        L.append([format(a, "x"), "xchg", [third, "%r11"], [third, "%r11"]]); a += 3
    L.append([format(a, "x"), "ret", [], []])
    ok = (base == pushed or (op == "$or" and base == lit)) and off_shown == off and (third is None or third == pushed)
    i = next(k for k, rec in enumerate(L) if rec[1] == m0)
    spans = {i: [i + len(pattern)]} if ok else {}
    return {"form": "deref-operator-capture", "how": how, "op": op, "regfam": regfam, "pattern": pattern, "listing": L, "spans": spans, "near": how != "bound" or off_shown != off or (third not in (None, pushed))}


@st.composite
def many_names_cases(draw):
    """'Any number of names': N capture names on the spine (N around 100, where a decimal back-reference number gets a third digit),
    then a later occurrence of one of them.  Instruction k of the listing is `mov $0x<k>,%rax`; the instruction after the N-th is a copy
    of instruction j (found iff j is the name referred to) - the verdict is known by construction."""
    n = draw(st.sampled_from([9, 10, 11, 64, 95, 99, 100, 100, 101, 108, 120, 130]))
    level = draw(st.sampled_from(["inst", "operand", "operand-two"]))
    ref = draw(st.sampled_from(sorted({1, 2, min(8, n), min(10, n), n - 1, n, n, n})))
    shown = ref if draw(st.integers(0, 2)) else draw(st.sampled_from(sorted({1, max(1, ref - 1), min(n, ref + 1), max(1, ref // 10), n} - {ref}) or [ref]))
    if level == "inst":
        pattern = [f"&i{k}" for k in range(1, n + 1)] + [f"&i{ref}"]
    elif level == "operand":
        pattern = [{"mov": [f"&o{k}", "rax"]} for k in range(1, n + 1)] + [{"mov": [f"&o{ref}"]}]
    else:
        pattern = [{"mov": [f"&o{k}", f"&p{k}"]} for k in range(1, n + 1)] + [{"mov": [f"&o{ref}", f"&p{ref}"]}]
    L = []
    a = 0x401000
    for k in list(range(1, n + 1)) + [shown]:
        L.append([format(a, "x"), "mov", [f"$0x{k:x}", "%rax"], [f"0x{k:x}", "%rax"]])
        a += 7
    L.append([format(a, "x"), "ret", [], []])
    return {"form": "many-names", "n": n, "level": level, "ref": ref, "shown": shown, "pattern": pattern, "listing": L, "spans": {"0": [n + 1]} if shown == ref else {}}


@st.composite
def ranged_occurrence_cases(draw):
    """A later occurrence with a RANGED times followed, in the same operand list, by the definition of another capture that is used
    again afterwards: how many operands the run takes decides what the new name binds.  Judged by the interchangeability of
    `&r times {0,2}` with &r written 0, 1 or 2 times (the repeated item is a later occurrence, it defines nothing): the ranged rule
    is found iff one of the three written-out rules is."""
    regs = ["%xmm1", "%xmm2", "%rax", "%rbx", "%r8"]
    S, R0 = draw(st.sampled_from(regs)), draw(st.sampled_from(regs))
    k = draw(st.integers(0, 3))
    D = R0 if draw(st.booleans()) else draw(st.sampled_from(regs))
    extra = draw(st.lists(st.sampled_from(regs), max_size=2))
    final = D if draw(st.integers(0, 3)) else draw(st.sampled_from(regs))
    fam = draw(st.booleans()) and R0 in ("%rax", "%rbx")
    rname = "&genreg-r" if fam else "&r"
    ops1 = [R0] * k + [D] + extra
    L = [["401000", "vmovdqa", [S, R0], [S, R0]], ["401004", "vpaddd", list(ops1), list(ops1)], ["401008", "vmovdqu", [final], [final]], ["40100c", "ret", [], []]]
    lo, hi = draw(st.sampled_from([(0, 2), (0, 1), (1, 2), (0, 3)]))

    def rule(mid):
        return [{"vmovdqa": ["&s", rname]}, {"vpaddd": mid + ["&d"]}, {"vmovdqu": ["&d"]}]

    ranged = rule([{rname: {"times": {"min": lo, "max": hi}}}])
    written = [rule([rname] * n_) for n_ in range(lo, hi + 1)]
    sel = draw(st.integers(0, 4))
    if sel in (1, 2):
        # The ranged thing is an item, a group or a $not that USES the capture (it defines nothing), again with optional items around
        # the definition so that its position is first reached with another binding: push X ; push Y ; <run> ; ret.  Judged against
        # the rule with the run written out 0..n times (F47: the engine's memory of failed repeat bodies survives the re-binding).
        regs2 = ["%rax", "%rbx", "%rcx"]
        X, Y = draw(st.sampled_from(regs2)), draw(st.sampled_from(regs2))
        cname = draw(st.sampled_from(["&a", "&genreg", "&genreg-q"]))
        later = cname + (".64" if cname != "&a" and draw(st.booleans()) else "")
        run = draw(st.lists(st.sampled_from(["pop-x", "pop-x", "pop-y", "nop"]), min_size=0, max_size=4))
        L = [["401000", "push", [X], [X]], ["401001", "push", [Y], [Y]]]
        for q_, w_ in enumerate(run):
            ops_ = [] if w_ == "nop" else [X if w_ == "pop-x" else Y]
            L.append([format(0x401002 + q_, "x"), "nop" if w_ == "nop" else "pop", list(ops_), list(ops_)])
        L.append(["401010", "ret", [], []])
        opt = {"$or": ["push", "nop"], "times": {"min": 0, "max": 1}}
        user = draw(st.sampled_from(["item", "or-group", "and-group", "not", "not-around"]))
        if user == "not-around":
            lo = max(lo, 1)
            hi = max(hi, lo + 1)
        unit = {"item": {"pop": [later]}, "or-group": {"$or": [{"pop": [later]}, "nop"]}, "and-group": {"$and": [{"pop": [later]}]}, "not": {"$not": [{"pop": [later]}]},
                "not-around": {"$or": [{"pop": [later]}, "nop"]}}[user]

        def rule3(mid):
            return [dict(opt), {"push": [cname]}, dict(opt)] + mid + ["ret"]

        if user == "not-around":
            # `$not` around (the ranged group, then ret) + one more instruction for the $not to consume
            ranged = rule3([{"$not": [{"$and": [dict(unit, times={"min": lo, "max": hi}), "ret"]}]}, {"$or": ["pop", "nop"], "times": {"min": 0, "max": 4}}])
            written = [rule3([{"$not": [{"$or": [{"$and": [dict(unit)] * n_ + ["ret"]} for n_ in range(hi, lo - 1, -1)]}]}, {"$or": ["pop", "nop"], "times": {"min": 0, "max": 4}}])]
        else:
            ranged = rule3([dict(unit, times={"min": lo, "max": hi})])
            written = [rule3([dict(unit) for _ in range(n_)]) for n_ in range(lo, hi + 1)]
        return {"form": "ranged-occurrence", "listing": L, "pattern": ranged, "written_out": written, "k": len(run), "bounds": [lo, hi], "regfam": cname != "&a", "user": user}
    if sel == 0:
        # optional items around the DEFINITION: the position of the later occurrence is reached with one binding first and, after
        # backtracking, with another (push X ; push Y ; mov X,tail: the capture must end up bound by the first push) - F44
        regs2 = ["%rax", "%rbx", "%rcx"]
        X, Y = draw(st.sampled_from(regs2)), draw(st.sampled_from(regs2))
        tail = draw(st.sampled_from(["%rcx", "%rdx"]))
        cname = draw(st.sampled_from(["&a", "&genreg", "&genreg-q"]))
        later = cname + (".64" if cname != "&a" and draw(st.booleans()) else "")
        n_x = draw(st.integers(0, 2))
        L = [["401000", "push", [X], [X]], ["401001", "push", [Y], [Y]], ["401002", "mov", [X] * n_x + [tail], [X] * n_x + [tail]], ["401005", "ret", [], []]]
        opt = {"$or": ["push", "nop"], "times": {"min": 0, "max": 1}}

        def rule2(mid):
            return [dict(opt), {"push": [cname]}, dict(opt), {"mov": mid + [tail.lstrip("%")]}]

        ranged = rule2([{later: {"times": {"min": lo, "max": hi}}}])
        written = [rule2([later] * n_) for n_ in range(lo, hi + 1)]
        fam = cname != "&a"
    return {"form": "ranged-occurrence", "listing": L, "pattern": ranged, "written_out": written, "k": k, "bounds": [lo, hi], "regfam": bool(fam)}


def _capture_names_through_macro(pattern):
    """One rule in five: the last character(s) of every capture name are written as a string macro.  -> (pattern, macros) | None"""
    import zlib

    text = repr(pattern)
    if zlib.crc32(text.encode()) % 5 != 0 or "@" in text:
        return None
    tails = set()

    def names(node):
        if isinstance(node, str) and node.startswith("&") and len(node) >= 3:
            tails.add(node[-2:] if node[-2:].isalnum() and len(node) >= 4 else node[-1:])
        elif isinstance(node, list):
            for x in node:
                names(x)
        elif isinstance(node, dict):
            for k, v in node.items():
                names(k)
                names(v)

    names(pattern)
    tails = {t for t in tails if t.isalnum()}
    if len(tails) != 1:
        return None  # one macro for one tail keeps the factoring obviously equivalent
    tail = tails.pop()

    def sub(node):
        if isinstance(node, str):
            return node[: -len(tail)] + "@yw_" if node.startswith("&") and node.endswith(tail) and len(node) > len(tail) + 1 else node
        if isinstance(node, list):
            return [sub(x) for x in node]
        if isinstance(node, dict):
            return {sub(k) if isinstance(k, str) else k: sub(v) for k, v in node.items()}
        return node

    return sub(pattern), [{"name": "@yw_", "pattern": tail}]


def strategy(tier):
    return st.one_of(cases(), cases(), cases(), cases(), cases(), cases(), cases(), cases(), cases(), cases(), deref_capture_cases(), deref_capture_cases(), deref_operator_capture_cases(), deref_operator_capture_cases(), many_names_cases(),
                     ranged_occurrence_cases(), ranged_occurrence_cases())


def evaluate(case):
    ev = Eval()
    ev.subcases = 0
    L, pattern = case["listing"], case["pattern"]
    if case.get("form") == "ranged-occurrence":
        from vlib import jasm_io
        from vlib.gen_listing import att_view
        from vlib.render import render

        text = render(att_view(L))
        r = jasm_io.match(jasm_io.make_doc(pattern), text, mode="bool", search="first")
        rs = [jasm_io.match(jasm_io.make_doc(w), text, mode="bool", search="first") for w in case["written_out"]]
        ev.subcases = 1 + len(rs)
        if any(x[0] == "inconclusive" for x in [r] + rs):
            ev.inconclusive += 1
        elif any(x[0] == "exc" for x in [r] + rs):
            ev.dev("exception", form="ranged-occurrence", error=[list(x[:2]) for x in [r] + rs])
        else:
            want = any(x[1] for x in rs)
            if r[1] is not want:
                ev.dev("ranged-occurrence-differs-from-written-out", bounds=case["bounds"], ranged=r[1], written_out=[x[1] for x in rs], pattern=pattern)
            ev.tags = ["kind=ranged-occurrence-before-definition", "expect=found" if want else "expect=notfound"] + (["ranged-occurrence=register-family"] if case["regfam"] else [])
            if case.get("user"):
                ev.tags += ["kind=ranged-user-after-rebinding", "ranged-user=" + case["user"]]
            ev.nontrivial = True
        ev.sample = {"pattern": pattern, "stream": stream_sample(L)}
        return ev
    if case.get("form") == "deref-capture":
        spans = _dc_spans(case)
        exp, _, _ = compare(ev, pattern, L, None, None, spans=spans)
        near = case["mut"] != "none"
        ev.tags = ["kind=deref-field", f"dmut={case['mut']}", "expect=found" if exp else "expect=notfound", "deref-keys=canonical" if case["key_order_canonical"] else "deref-keys=permuted"]
        if near:
            ev.tags.append("near-miss")
        ev.nontrivial = exp or near
        ev.sample = {"mut": case["mut"], "pattern": pattern, "stream": stream_sample(L), "expected_found": exp}
        return ev
    if case.get("form") == "many-names":
        spans = {int(k): set(v) for k, v in case["spans"].items()}
        exp, _, _ = compare(ev, pattern, L, None, None, spans=spans, modes=("list",))
        ev.tags = ["kind=many-names", f"names={'>=100' if case['n'] * (2 if case['level'] == 'operand-two' else 1) >= 100 else '<100'}", f"mlevel={case['level']}", "expect=found" if exp else "expect=notfound"] + ([] if exp else ["near-miss"])
        ev.nontrivial = True
        ev.sample = {"names": case["n"], "level": case["level"], "refers_to": case["ref"], "shown": case["shown"], "expected_found": exp}
        return ev
    if case.get("form") == "deref-operator-capture":
        spans = {int(k): set(v) for k, v in case["spans"].items()}
        exp, _, _ = compare(ev, pattern, L, None, None, spans=spans)
        ev.tags = ["kind=deref-operator-capture", f"how={case['how']}", f"dop={case['op']}", "expect=found" if exp else "expect=notfound"] + (["near-miss"] if case["near"] else [])
        if case.get("regfam"):
            ev.tags.append("deref-operator-capture=register-family")
        ev.nontrivial = True
        ev.sample = {"pattern": pattern, "stream": stream_sample(L), "expected_found": exp}
        return ev
    mn_full, op_full = case.get("flags", [False, False])
    if case.get("shipped"):
        # the documented meaning of the shipped macros, written down here (not read from the file under test)
        meaning = {"@any_shift": {"$or": ["shr", "shl", "sal", "sar"]}, "@any_rot": {"$or": ["rol", "ror"]}}
        from vlib.gen_listing import norm_view
        from vlib.gen_rules import SHIPPED_MACROS
        from vlib.refmatch import Ref

        expanded = [meaning.get(x, x) if isinstance(x, str) else x for x in pattern]
        spans0 = Ref(norm_view(L), bool(mn_full), bool(op_full)).spans(expanded)
        exp, spans, _ = compare(ev, pattern, L, mn_full or None, op_full or None, spans=spans0, macros_files=[SHIPPED_MACROS])
        ev.tags.append("shipped-macros")
    else:
        spelled = _capture_names_through_macro(pattern)
        if spelled is not None:
            # a part of every capture name comes from a string macro (`&genreg-1.@yw_` with @yw_ = "64", `&x@yw_` with "0"): the same
            # names, the same captures
            from vlib.gen_listing import norm_view
            from vlib.refmatch import Ref

            spans0 = Ref(norm_view(L), bool(mn_full), bool(op_full)).spans(pattern)
            exp, spans, _ = compare(ev, spelled[0], L, mn_full or None, op_full or None, spans=spans0, doc_macros=spelled[1])
            ev.tags.append("capture-name-through-string-macro")
        else:
            exp, spans, _ = compare(ev, pattern, L, mn_full or None, op_full or None)
    ev.tags = ev.tags + (["flags=full"] if (mn_full or op_full) else []) + [f"mut={case['mut']}", "expect=found" if exp else "expect=notfound"] + [f"kind={k}" for k in case["kinds"]]
    near = case["mut"] != "none"
    if near:
        ev.tags.append("near-miss")
    ev.nontrivial = case["multi"] and (exp or near)
    ev.sample = {"mut": case["mut"], "pattern": pattern, "stream": stream_sample(L), "expected_found": exp}
    return ev
