"""C11 - all-matches mode is a complete leftmost non-overlapping scan."""
import os

from hypothesis import assume, strategies as st

from vlib import jasm_io
from vlib.gen_listing import att_view, instruction_body, norm_view
from vlib.gen_pattern import describe_inst, lit_ok
from vlib.gen_rules import names_ok
from vlib.matcheval import locate, record_table, run_all_modes, stream_sample
from vlib.model import stream_record
from vlib.refmatch import Ref
from vlib.render import render
from vlib.runner import Eval

ID = "C11"
LEVEL = "exploration"
CGF_RUNS = {"thorough": 4000}  # coverage-guided stage (vlib/cgf.py): libFuzzer executions per worker, 16 workers
RULE = (
    "Non-nullable rules of 1-4 instructions over a 2-3 letter alphabet of instruction bodies (templates [a], [a,a], [a,b], [a,b,a], with $or/times/"
    "$not/any-order variants; nullability decided by the reference) x listings that are random words over the same alphabet (length 3-16, so that "
    "adjacent, separated and overlapping candidate occurrences abound), optionally with restarting addresses. Oracle with S = reference spans and the "
    "reported list as (i_k, j_k): increasing and non-overlapping, each in S, i_1 = min dom S, no start of S in [j_k, i_{k+1}) nor after the last match; "
    "first-match mode = one-element prefix. Non-trivial: >= 2 candidate starts in S of which two overlap or are adjacent; distinct by canonical hash. "
    "Thorough tier adds listings of 33 000 - 70 000 instructions (occurrences placed at and around multiples of 2^15)."
)
ASSUMPTIONS = ["reference matcher spans are complete (a set of ends per start)", "rules that can match the empty sequence are excluded (the statement quantifies over non-nullable patterns)"]
FLOORS = {"overlapping": 0.12, "adjacent": 0.15, "candidates>=2": 0.35}
TEMPLATES = ["a", "aa", "ab", "aba", "a-or", "a-times", "ab-times", "not-b", "any-ab", "aab", "abab", "cap-ii", "cap-op", "a-cap-cap", "a-run-ax", "a-run-ax", "a-b-opt"]


def budget(tier):
    return {"cases": 5000 if tier == "quick" else 100000}


@st.composite
def cases(draw):
    k = draw(st.integers(2, 3))
    bodies = []
    while len(bodies) < k:
        b = draw(instruction_body())
        if " " in "".join(b[1]) and draw(st.booleans()):
            continue
        if all(b[0] != x[0] for x in bodies):
            bodies.append(list(b))
    a, b = bodies[0], bodies[1]
    da = describe_inst(draw, ("0", a[0], a[2]), (True, False) if draw(st.booleans()) else (False, False))
    db = describe_inst(draw, ("0", b[0], b[2]), (False, False))
    t = draw(st.sampled_from(TEMPLATES))
    if t == "a-run-ax":
        # a ranged run of `a` followed by an item for `ax`, the same instruction with a longer mnemonic: the run's name fits
        # `ax` too, so a run that could still grow has to give the instruction back to the next item
        ax = [a[0] + draw(st.sampled_from(["q", "l", "zbl"])), list(a[1]), list(a[2])]
        bodies = [a, b, ax]
        k = 3
    pattern = {
        "a": [da],
        "aa": [da, da],
        "ab": [da, db],
        "aba": [da, db, da],
        "aab": [da, da, db],
        "abab": [da, db, da, db],
        "a-or": [da, {"$or": [da, db]}],
        "a-times": [{da: {"times": {"min": 1, "max": 2}}} if isinstance(da, str) else dict(da, times={"min": 1, "max": 2})],
        "ab-times": [{"$and": [da, db], "times": {"min": 1, "max": 2}}],
        "not-b": [da, {"$not": [db]}],
        "any-ab": [{"$and_any_order": [da, db]}],
        "cap-ii": ["&i1", "&i1"],
        "cap-op": [{a[0]: ["&x1"]}, {a[0]: ["&x1"]}] if a[2] else ["&i1", "&i1"],
        "a-cap-cap": [da, "&i1", "&i1"],
        "a-b-opt": [da, {b[0]: {"times": {"min": 0, "max": 2}}}],
        "a-run-ax": [{a[0]: {"times": {"min": 1, "max": draw(st.integers(2, 4))}}}, (a[0] + "q") if len(bodies) < 3 else bodies[2][0]],
    }[t]
    n = draw(st.integers(4, 16))
    word = draw(st.lists(st.integers(0, k - 1), min_size=n, max_size=n))
    addr = draw(st.sampled_from([0x0, 0x400, 0x401000, 0xadd0]))
    start = addr
    restart = draw(st.integers(1, n - 1)) if draw(st.integers(0, 4)) == 0 else None
    L = []
    for q, w in enumerate(word):
        if q == restart:
            addr = start
        m, oa, on = bodies[w]
        L.append([format(addr, "x"), m, list(oa), list(on)])
        addr += draw(st.integers(1, 7))
    with_range = draw(st.integers(0, 5)) == 0
    if with_range:
        # a rule with valid_addr_range: direct call/jmp targets in range are presented as `valid_addr` (C18), so records change
        # their length - the scan and the reported addresses must not care.  Only unconditional direct branches are used
        # (what C18 leaves unspecified is kept out of the listing).
        assume(all(not x[0].startswith(("j", "call", "loop")) for x in bodies))
        pre = []
        pa = 0x100
        for _ in range(draw(st.integers(3, 8))):
            tgt = format(draw(st.integers(0x1000, 0xffffff)), "x")
            pre.append([format(pa, "x"), draw(st.sampled_from(["call", "jmp"])), [tgt + " <f>"], [tgt]])
            pa += 5
        shift = pa + 16
        for rec in L:
            rec[0] = format(int(rec[0], 16) + shift, "x")
        k_ins = draw(st.integers(0, len(L)))
        L = pre + L if draw(st.booleans()) else L[:k_ins] + [[format(int(L[k_ins - 1][0], 16) + 1 if k_ins else shift - 8, "x")] + pre[0][1:]] + L[k_ins:] + []
        # keep addresses strictly increasing where an extra branch was inserted in the middle
        last = -1
        for rec in L:
            v = int(rec[0], 16)
            if v <= last:
                v = last + 1
                rec[0] = format(v, "x")
            last = v
    if draw(st.integers(0, 5)) == 0 and not with_range:
        w_ = draw(st.sampled_from([2, 4, 8, 16]))  # zero padded address column, as in raw-binary / object dumps
        for rec in L:
            rec[0] = rec[0].zfill(w_)
    assume(names_ok(pattern))
    flags = draw(st.sampled_from([[False, False], [False, False], [True, False], [False, True], [True, True]]))
    return {"template": t, "listing": L, "pattern": pattern, "restart": restart is not None and not with_range, "flags": flags, "range": with_range}


def strategy(tier):
    return cases()


def check_scan(ev, pattern, NV, full_all, first, spans, ctx=None):
    """The C11 oracle on one all-matches report (full matched texts)."""
    ctx = ctx or {}
    records = [stream_record(a, m, o) for a, m, o in NV]
    table = record_table(records)
    pos = 0
    rep = []
    for t in full_all:
        ij = locate(t, records, table, pos)
        if ij is None:
            ev.dev("match-not-aligned-or-out-of-order", observed=t, **ctx)
            return None
        pos = ij[2] + len(t)
        rep.append((ij[0], ij[1]))
    starts = sorted(spans)
    for q, (i, j) in enumerate(rep):
        if j not in spans.get(i, ()):
            ev.dev("not-a-genuine-match", span=[i, j], **ctx)
            return rep
        if q and i < rep[q - 1][1]:
            ev.dev("overlap", spans=[list(rep[q - 1]), [i, j]], **ctx)
            return rep
    if starts:
        if not rep:
            ev.dev("missed-all", first_candidate=starts[0], **ctx)
            return rep
        if rep[0][0] != starts[0]:
            ev.dev("first-not-leftmost", expected_start=starts[0], observed_start=rep[0][0], **ctx)
            return rep
        for q, (i, j) in enumerate(rep):
            nxt = rep[q + 1][0] if q + 1 < len(rep) else len(NV) + 1
            gap = [s for s in starts if j <= s < nxt]
            if gap:
                ev.dev("missed-occurrence", after=[i, j], candidate_start=gap[0], **ctx)
                return rep
    elif rep:
        ev.dev("spurious", observed=rep[:3], **ctx)
    if first is not None and first != full_all[:1]:
        ev.dev("first-mode-differs", expected=full_all[:1], observed=first, **ctx)
    return rep


def eval_timeout(case):
    """Fault injection (harness side, no change to the repository): the `regex` module seen by jasm.consumer is wrapped so that
    the scan raises TimeoutError after `timeout_after` hits (what the real engine does when its time budget runs out in the
    middle of a long listing).  A scan that was cut short must surface as an error, never as a shorter list."""
    import pickle
    import regex as real_regex

    k, search = case["timeout_after"], case["search"]
    L = []
    addr = 0x401000
    for q in range(6):
        for m, ops in (("nop", []), ("call", ["401000 <f>"]), ("ret", [])):
            L.append((format(addr, "x"), m, ops))
            addr += 3
    text = render(L)

    def child():
        import jasm.consumer as jc

        class Proxy:
            def __getattr__(self, name):
                return getattr(real_regex, name)

            def finditer(self, *a, **kw):
                it = real_regex.finditer(*a, **kw)

                def gen():
                    for n_, m_ in enumerate(it):
                        if n_ >= k:
                            raise TimeoutError("injected")
                        yield m_

                return gen()

            def search(self, *a, **kw):
                if k == 0:
                    raise TimeoutError("injected")
                return real_regex.search(*a, **kw)

        jc.regex = Proxy()
        return jasm_io.match(jasm_io.make_doc(["call", "ret"]), text, mode="list", search=search, only_addr=True)

    r_, w_ = os.pipe()
    pid = os.fork()
    if pid == 0:
        os.close(r_)
        try:
            out = child()
        except BaseException as exc:  # noqa: BLE001
            out = ("harness-error", repr(exc))
        os.write(w_, pickle.dumps(out))
        os._exit(0)
    os.close(w_)
    buf = b""
    while True:
        chunk = os.read(r_, 65536)
        if not chunk:
            break
        buf += chunk
    os.close(r_)
    os.waitpid(pid, 0)
    out = pickle.loads(buf)
    ev = Eval()
    ev.subcases = 1
    ev.tags = ["injected-timeout"]
    ev.nontrivial = True
    ev.keys = [("timeout", k, search)]
    if out[0] == "harness-error":
        raise RuntimeError(out[1])
    interrupted = (search == "all" and k < 6) or (search == "first" and k == 0)
    if interrupted and out[0] == "ok":
        ev.dev("scan-cut-short-by-timeout-reported-as-complete", timeout_after_hits=k, search=search, reported=out[1], complete_scan_has=6)
    if not interrupted and (out[0] != "ok" or len(out[1]) != (6 if search == "all" else 1)):
        ev.dev("uninterrupted-scan-differs", timeout_after_hits=k, search=search, outcome=list(out[:2]))
    return ev


def evaluate(case):
    if "macro_twice" in case:
        return eval_macro_twice(case)
    if "long_listing" in case:
        return eval_long(case)
    if "timeout_after" in case:
        return eval_timeout(case)
    if "zone_cut" in case:
        return eval_zone(case)
    if "wide_anyorder" in case:
        return eval_wide_anyorder(case)
    if "long_run" in case:
        return eval_long_run(case)
    if "binary_sections" in case:
        return eval_binary_sections(case)
    if "archive_listing" in case:
        return eval_archive_listing(case)
    ev = Eval()
    L = case["listing"]
    NV = norm_view(L)
    cfg = None
    if case.get("range"):
        cfg = {"valid_addr_range": {"min": "0", "max": "ffffffffffff"}}
        NV = [(a_, m_, ["valid_addr"]) if m_ in ("call", "jmp") and len(o_) == 1 and all(ch in "0123456789abcdef" for ch in o_[0]) else (a_, m_, o_) for a_, m_, o_ in NV]
    mn_full, op_full = case.get("flags", [False, False])
    ref = Ref(NV, mn_full, op_full)
    if ref.spans_empty(case["pattern"]):
        ev.tags.append("nullable-skipped")
        return ev
    spans = ref.spans(case["pattern"])
    text = render(att_view(L))
    res = run_all_modes(jasm_io.make_doc(case["pattern"], mn_full or None, op_full or None, config=cfg), text, None, combos=[("list", "all", False), ("list", "first", False), ("list", "all", True), ("list", "first", True)])
    ev.subcases = 4
    outs = {}
    for key, r in res.items():
        if r[0] == "inconclusive":
            ev.inconclusive += 1
        elif r[0] == "exc":
            ev.dev("exception", mode=list(key), error=list(r[1:]))
        else:
            outs[key] = r[1]
    if len(outs) < 4:
        return ev
    rep_spans = check_scan(ev, case["pattern"], NV, outs[("list", "all", False)], outs[("list", "first", False)], spans)
    if rep_spans is not None and not ev.deviations:
        # the address-only presentation must be the same scan
        want = [NV[i][0] for i, _ in rep_spans]
        if outs[("list", "all", True)] != want:
            ev.dev("address-only-scan-differs", expected=want[:6], observed=outs[("list", "all", True)][:6])
        elif outs[("list", "first", True)] != want[:1]:
            ev.dev("address-only-first-differs", expected=want[:1], observed=outs[("list", "first", True)])
    starts = sorted(spans)
    ev.tags = [f"template={case['template']}"]
    if case.get("range"):
        ev.tags.append("with-valid-addr-range")
    if case["restart"]:
        ev.tags.append("repeated-addresses")
    overl = adj = False
    for q in range(len(starts) - 1):
        i, i2 = starts[q], starts[q + 1]
        if any(i2 < j for j in spans[i]):
            overl = True
        if any(i2 == j for j in spans[i]):
            adj = True
    if len(starts) >= 2:
        ev.tags.append("candidates>=2")
    if overl:
        ev.tags.append("overlapping")
    if adj:
        ev.tags.append("adjacent")
    ev.nontrivial = len(starts) >= 2 and (overl or adj)
    ev.sample = {"template": case["template"], "pattern": case["pattern"], "stream": stream_sample(L), "reported": outs[("list", "all", False)][:4], "candidate_starts": starts[:8]}
    return ev


def eval_long(case):
    """A listing of case['long_listing'] instructions with call;ret occurrences at the positions case['marks']."""
    n, marks = case["long_listing"], set(case["marks"])
    L = []
    addr = 0x400000
    q = 0
    while q < n:
        if q in marks and q + 1 < n:
            L.append([format(addr, "x"), "call", ["401000 <f>"], ["401000"]])
            addr += 5
            L.append([format(addr, "x"), "ret", [], []])
            addr += 1
            q += 2
        else:
            L.append([format(addr, "x"), "nop", [], []])
            addr += 1
            q += 1
    NV = norm_view(L)
    pattern = ["call", "ret"]
    spans = {i: {i + 2} for i in range(len(NV) - 1) if NV[i][1] == "call" and NV[i + 1][1] == "ret"}
    text = render(att_view(L))
    res = run_all_modes(jasm_io.make_doc(pattern), text, None, combos=[("list", "all", False), ("list", "first", False)])
    ev = Eval()
    ev.subcases = 2
    if all(r[0] == "ok" for r in res.values()):
        check_scan(ev, pattern, NV, res[("list", "all", False)][1], res[("list", "first", False)][1], spans, ctx={"long_listing": len(NV)})
    else:
        ev.dev("exception", long_listing=len(NV), error=[list(r[:2]) for r in res.values()])
    ev.tags = ["long-listing"]
    ev.nontrivial = True
    return ev


def eval_zone(case):
    """One listing with a 64-instruction zone centred on a plausible chunk size; four rules whose (first) occurrence
    straddles that index (vlib/longlist.py).  Scan laws as everywhere else, plus bool mode for the long rule."""
    from vlib import longlist

    cut = case["zone_cut"]
    NV, _ = longlist.zone_listing(cut)
    text = render(NV)
    ev = Eval()
    ev.subcases = 0
    only = case.get("rules")
    for name, pattern in longlist.zone_rules().items():
        if only and name not in only:
            continue
        spans = longlist.zone_spans(cut, name)
        combos = [("list", "all", False), ("list", "first", False)] + ([("bool", "first", False)] if name == "long" else [])
        res = run_all_modes(jasm_io.make_doc(pattern), text, None, combos=combos)
        ev.subcases += len(combos)
        if all(r[0] == "ok" for r in res.values()):
            check_scan(ev, pattern, NV, res[("list", "all", False)][1], res[("list", "first", False)][1], spans, ctx={"zone_cut": cut, "rule": name})
            if name == "long" and res[("bool", "first", False)][1] is not True:
                ev.dev("verdict", mode="bool", expected=True, observed=res[("bool", "first", False)][1], zone_cut=cut, rule=name)
        elif any(r[0] == "exc" for r in res.values()):
            ev.dev("exception", zone_cut=cut, rule=name, error=[list(r[:2]) for r in res.values()])
        else:
            ev.inconclusive += 1
    ev.tags = ["zone-listing"]
    ev.nontrivial = True
    ev.keys = [("zone", cut)]
    return ev


def eval_binary_sections(case):
    """Binary input with a sections list written in another order than the sections have in the file: the scan runs over the
    instruction stream in file (address) order - what objdump prints for the -j options, whatever their order."""
    from props.c18_addr_range import _range_binary
    from vlib.elfw import disassemble_object

    ev = Eval()
    sc = jasm_io.scratch()
    path = sc.write("c11_sections.elf", _range_binary())
    secs = case["binary_sections"]
    rc, text, _ = disassemble_object(path, secs)
    tpath = sc.write("c11_sections.s", text)
    ev.subcases = 0
    for rule in (["ret"], ["call"], [{"$or": ["push", "pop"]}]):
        rp = sc.write("c11_sections_rule.yaml", jasm_io.rule_text(jasm_io.make_doc(rule, config={"sections": secs})))
        b_all = jasm_io.match_files(rp, path, mode="list", search="all", only_addr=True, binary=True)
        b_first = jasm_io.match_files(rp, path, mode="list", search="first", only_addr=True, binary=True)
        a_all = jasm_io.match_files(rp, tpath, mode="list", search="all", only_addr=True, binary=False)
        ev.subcases += 3
        if b_all[0] != "ok" or a_all[0] != "ok" or b_first[0] != "ok":
            ev.dev("exception", binary_sections=secs, rule=rule, outcomes=[list(b_all[:2]), list(b_first[:2]), list(a_all[:2])])
            continue
        addrs = [int(x, 16) for x in b_all[1]]
        if addrs != sorted(addrs):
            ev.dev("not-in-increasing-address-order", binary_sections=secs, rule=rule, observed=b_all[1][:8])
        elif b_all[1] != a_all[1]:
            ev.dev("scan-differs-from-text-route", binary_sections=secs, rule=rule, binary_route=b_all[1][:8], text_route=a_all[1][:8])
        elif b_first[1] != b_all[1][:1]:
            ev.dev("first-differs-from-all", binary_sections=secs, rule=rule, first=b_first[1], head_of_all=b_all[1][:1])
    ev.tags = ["binary-sections-order"]
    ev.nontrivial = True
    ev.keys = [("binary-sections", tuple(secs))]
    return ev


def eval_archive_listing(case):
    """The listing objdump prints for a static library (`In archive lib.a:` and one title line per member, addresses restarting at 0):
    one instruction stream like any other - first-match is the head of all-matches, an occurrence may straddle two members."""
    import subprocess

    from vlib.elfw import make_elf, run_objdump
    from vlib.realsrc import records_of_text

    ev = Eval()
    sc = jasm_io.scratch()
    d = sc.path("c11_archive")
    os.makedirs(d, exist_ok=True)
    members = {"m1.o": "55 4889e5 c3", "m2.o": "50 4831c0 58 c3", "m3.o": "55 c3 50 c3"}
    for nm, hx in members.items():
        with open(os.path.join(d, nm), "wb") as f_:
            f_.write(make_elf([(".text", bytes.fromhex(hx.replace(" ", "")), True)], [("f_" + nm[:2], 1, 0)]))
    arch = os.path.join(d, "libc11.a")
    if os.path.exists(arch):
        os.unlink(arch)
    if subprocess.run(["ar", "rcD", "libc11.a", *members], cwd=d, capture_output=True).returncode != 0:
        ev.tags = ["archive-listing", "ar-not-available"]
        return ev
    rc, text, _ = run_objdump(["-d", "-M", "att", arch])
    NV = records_of_text(text)
    ev.subcases = 0
    if rc != 0 or not NV:
        ev.tags = ["archive-listing", "objdump-failed"]
        return ev
    for inp, binary in ((sc.write("c11_archive.s", text), False), (arch, True)):
        for pattern in (["ret"], ["ret", "push"], ["push"], [{"$or": ["mov", "xor"]}, {"$not": ["push"]}]):
            rp = sc.write("c11_archive_rule.yaml", jasm_io.rule_text(jasm_io.make_doc(pattern)))
            r_all = jasm_io.match_files(rp, inp, mode="list", search="all", binary=binary)
            r_first = jasm_io.match_files(rp, inp, mode="list", search="first", binary=binary)
            ev.subcases += 2
            if r_all[0] == "ok" and r_first[0] == "ok":
                check_scan(ev, pattern, NV, r_all[1], r_first[1], Ref(NV, False, False).spans(pattern), ctx={"archive_listing": "binary" if binary else "text", "rule": pattern})
            elif "exc" in (r_all[0], r_first[0]):
                ev.dev("exception", archive_listing="binary" if binary else "text", rule=pattern, error=[list(r_all[:2]), list(r_first[:2])])
    ev.tags = ["archive-listing"]
    ev.nontrivial = True
    ev.keys = [("archive-listing",)]
    return ev


def _zone_worker(cut):
    if cut == "archive-listing":
        case = {"archive_listing": True}
        return case, eval_archive_listing(case)
    if isinstance(cut, tuple):
        case = {"binary_sections": list(cut)}
        return case, eval_binary_sections(case)
    if isinstance(cut, str) and cut in MACRO_TWICE:
        case = {"macro_twice": cut}
        return case, eval_macro_twice(case)
    if isinstance(cut, str) and cut in LONG_RUNS:
        case = {"long_run": cut}
        return case, eval_long_run(case)
    if isinstance(cut, str):
        case = {"wide_anyorder": cut}
        return case, eval_wide_anyorder(case)
    case = {"zone_cut": cut}
    return case, eval_zone(case)


# one argument-less list macro invoked more than once in a rule, the invocations carrying different `times` (both spellings): the scan
# of the macro rule is judged against the reference over the inlined rule
MACRO_TWICE = {
    "times-then-plain": ([{"@ypad_": {"times": 2}}, "mov", "@ypad_", "ret"], [{"$and": [{"$or": ["nop", "xchg"]}], "times": 2}, "mov", {"$or": ["nop", "xchg"]}, "ret"]),
    "plain-then-times": (["@ypad_", "mov", {"@ypad_": [], "times": 3}, "ret"], [{"$or": ["nop", "xchg"]}, "mov", {"$and": [{"$or": ["nop", "xchg"]}], "times": 3}, "ret"]),
    "two-different-times": ([{"@ypad_": {"times": 2}}, "mov", {"@ypad_": {"times": {"min": 0, "max": 1}}}, "ret"],
                            [{"$and": [{"$or": ["nop", "xchg"]}], "times": 2}, "mov", {"$and": [{"$or": ["nop", "xchg"]}], "times": {"min": 0, "max": 1}}, "ret"]),
}


def eval_macro_twice(case):
    ev = Eval()
    tag = case["macro_twice"]
    pattern, inlined = MACRO_TWICE[tag]
    ms = ["push", "nop", "nop", "mov", "nop", "ret", "nop", "mov", "nop", "nop", "nop", "ret", "xchg", "nop", "mov", "ret", "nop", "nop", "mov", "xchg", "ret", "nop", "mov", "ret"]
    NV = [(format(0x401000 + 2 * q, "x"), m, ["%rbx", "%rcx"] if m in ("mov", "xchg") else []) for q, m in enumerate(ms)]
    spans = Ref(NV, False, False).spans(inlined)
    doc = jasm_io.make_doc(pattern, macros=[{"name": "@ypad_", "pattern": [{"$or": ["nop", "xchg"]}]}])
    res = run_all_modes(doc, render(NV), None, combos=[("list", "all", False), ("list", "first", False)])
    ev.subcases = 2
    if all(r[0] == "ok" for r in res.values()):
        check_scan(ev, inlined, NV, res[("list", "all", False)][1], res[("list", "first", False)][1], spans, ctx={"macro_twice": tag})
    elif any(r[0] == "exc" for r in res.values()):
        ev.dev("exception", macro_twice=tag, error=[list(r[:2]) for r in res.values()])
    else:
        ev.inconclusive += 1
    ev.tags = ["macro-twice", "macro-twice=" + tag]
    ev.nontrivial = True
    ev.keys = [("macro-twice", tag)]
    return ev


WIDE_KIDS = ["push", "push", "mov", "sub", "lea", "xor", "call"]
LONG_RUNS = {"run-1001-of-1000": (1, 1000, 1001), "run-1003-of-1000": (1, 1000, 1003), "run-1000-of-999": (2, 999, 1000), "run-1002-of-0-1000": (0, 1000, 1002), "run-1000-of-1000": (1, 1000, 1000)}


def eval_long_run(case):
    """A repeated item whose upper bound lies at 999 / 1000 (the value JASM uses elsewhere as 'no limit') followed by more pattern, on
    a run LONGER than the bound: the leftmost match starts where exactly max repetitions are left, not at the start of the run."""
    ev = Eval()
    tag = case["long_run"]
    lo, hi, n = LONG_RUNS[tag]
    NV = [("400000", "push", ["%rbp"])] + [(format(0x400001 + q, "x"), "nop", []) for q in range(n)] + [(format(0x400001 + n, "x"), "ret", []), (format(0x400002 + n, "x"), "nop", []), (format(0x400003 + n, "x"), "ret", [])]
    pattern = [{"nop": {"times": {"min": lo, "max": hi}}}, "ret"]
    spans = Ref(NV, True, True).spans(pattern)
    res = run_all_modes(jasm_io.make_doc(pattern, True, True), render(NV), None, combos=[("list", "all", False), ("list", "first", False)])
    ev.subcases = 2
    if all(r[0] == "ok" for r in res.values()):
        check_scan(ev, pattern, NV, res[("list", "all", False)][1], res[("list", "first", False)][1], spans, ctx={"long_run": tag})
    elif any(r[0] == "exc" for r in res.values()):
        ev.dev("exception", long_run=tag, error=[list(r[:2]) for r in res.values()])
    else:
        ev.inconclusive += 1
    ev.tags = ["long-run", "long-run=" + tag]
    ev.nontrivial = True
    ev.keys = [("long-run", tag)]
    return ev


def eval_wide_anyorder(case):
    """$and_any_order with seven children, two of them the same item (5040 orderings: a fixed handful of listings instead of the random
    campaign).  A window in which every child's text occurs and every instruction fits some child, but with one push and two movs, is
    not a match - each child is used exactly once; the genuine permuted window further on is."""
    ev = Eval()
    tag = case["wide_anyorder"]
    ms = {"near-window-then-genuine": ["nop", "push", "mov", "mov", "sub", "lea", "xor", "call", "ret", "xor", "push", "call", "lea", "push", "sub", "mov", "ret"],
          "near-window-only": ["push", "mov", "mov", "sub", "lea", "xor", "call", "ret"],
          "two-genuine-adjacent": ["push", "push", "mov", "sub", "lea", "xor", "call", "call", "xor", "lea", "sub", "mov", "push", "push", "nop"],
          "more-specific-child": ["push", "mov", "mov", "sub", "lea", "xor", "call", "ret"]}[tag]
    kids = list(WIDE_KIDS) if tag != "more-specific-child" else [{"mov": ["rax"]}, "mov", "push", "sub", "lea", "xor", "call"]
    NV = [(format(0x401000 + 3 * q, "x"), m, ["%rbx", "%rcx"] if m == "mov" else []) for q, m in enumerate(ms)]
    pattern = [{"$and_any_order": kids}]
    spans = Ref(NV, False, False).spans(pattern)
    res = run_all_modes(jasm_io.make_doc(pattern), render(NV), None, combos=[("list", "all", False), ("list", "first", False)])
    ev.subcases = 2
    if all(r[0] == "ok" for r in res.values()):
        check_scan(ev, pattern, NV, res[("list", "all", False)][1], res[("list", "first", False)][1], spans, ctx={"wide_anyorder": tag})
    elif any(r[0] == "exc" for r in res.values()):
        ev.dev("exception", wide_anyorder=tag, error=[list(r[:2]) for r in res.values()])
    else:
        ev.inconclusive += 1
    ev.tags = ["wide-anyorder", "wide=" + tag]
    ev.nontrivial = True
    ev.keys = [("wide-anyorder", tag)]
    return ev


def extra(tier, seed, rep):
    """Long listings: occurrences at and around multiples of 32768 instructions (a chunked scan would lose them); zone
    listings for every plausible chunk size."""
    import multiprocessing as mp
    from vlib import longlist

    with mp.get_context("fork").Pool(16, maxtasksperchild=1) as pool:
        for case, ev in pool.imap_unordered(_zone_worker, ["archive-listing", (".text.hot", ".text"), (".text", ".text.hot"), (".text.hot", ".nosuch", ".text")] + ["near-window-then-genuine", "near-window-only", "two-genuine-adjacent", "more-specific-child"] + sorted(MACRO_TWICE) + sorted(LONG_RUNS) + sorted(longlist.CUTS, reverse=True), chunksize=1):
            rep.add_eval(case, ev)
    rep.exhaustive_parts.append("the listing of a three-member static library (text and binary input): scan laws across member boundaries")
    rep.exhaustive_parts.append("3 section lists in and out of file order on a linked ELF given as binary: the scan is in address order and equals the text route's")
    rep.exhaustive_parts.append("3 rules that invoke one list macro twice with different times: the scan against the reference over the inlined rule")
    rep.exhaustive_parts.append("5 runs of 1000-1003 instructions against repetition bounds of 999 / 1000 followed by more pattern")
    rep.exhaustive_parts.append("4 fixed listings for a 7-child $and_any_order with a doubled / more specific child (windows that fit child by child but not one-to-one)")
    for k_ in (0, 1, 2, 5, 6, 9):
        for search in ("all", "first"):
            case = {"timeout_after": k_, "search": search}
            rep.add_eval(case, eval_timeout(case))
    rep.extra["injected_timeouts"] = {"after_hits": [0, 1, 2, 5, 6, 9], "searches": ["all", "first"]}
    rep.extra["zone_cuts"] = longlist.CUTS
    rep.exhaustive_parts.append(f"zone listings: all {len(longlist.CUTS)} chunk-size candidates x 4 straddling rules")
    import random

    rnd = random.Random(seed)  # a pure function of VERIF_SEED; only picks positions inside this fixed family
    sizes = [33000] if tier == "quick" else [33000, 66000, 70000]
    for n in sizes:
        marks = set()
        for base in range(32768, n, 32768):
            for d in (-1, 0):
                marks.add(base + d)
        for _ in range(6):
            marks.add(rnd.randrange(2, n - 2))
        case = {"long_listing": n, "marks": sorted(marks)}
        rep.add_eval(case, eval_long(case))
    rep.extra["long_listings"] = sizes
