"""C16 - only the instruction sequence matters, not how the listing is presented."""
import re

from hypothesis import strategies as st

from vlib import jasm_io
from vlib.gen_listing import att_view, listings
from vlib.objsrc import listing_for, source_tag, sources
from vlib.refnorm import CONT_LINE, LABEL_LINE
from vlib.render import render
from vlib.runner import Eval

ID = "C16"
LEVEL = "exploration"
CGF_RUNS = {"thorough": 3000}  # coverage-guided stage (vlib/cgf.py): libFuzzer executions per worker, 16 workers
RULE = (
    "Base listings are real objdump output for generated objects/blobs and rendered synthetic listings. 1-6 presentation edits (kinds drawn first) are applied at drawn "
    "positions to a structured copy of the listing: add/remove/rename symbol label lines; remove/alter <sym+off> annotations after address operands; remove/alter/add "
    "'# ...' comments; add/remove blank lines; add/remove/rename section header lines; remove/alter/add the file-format header; leading spaces 0-12 and 16-56; file names made of hexadecimal digits only in the file-format header; byte column "
    "content and length (1-7 bytes as objdump wraps by default, 8-13 on one line as --insn-width prints) with objdump's padding rule; comments that end in a colon or look like a section header; every stream comparison is repeated with valid_addr_range and a sections list configured; add/remove byte-continuation lines. Oracle (metamorphic): all_instructions_string and the all-matches lists of 3 rules "
    "derived from the base listing are identical before and after. Non-trivial: >= 2 distinct edit kinds actually applied and the listing has >= 1 annotated branch or comment; "
    "distinct by hash of (base, edited)."
)
ASSUMPTIONS = ["edits keep the instruction text (mnemonic and operands) of every instruction line byte-identical", "CRLF is not a presentation edit of the statement; removing the raw-byte column is (objdump --no-show-raw-insn)"]
EDITS = ["label-add", "label-remove", "label-rename", "annot-remove", "annot-alter", "comment-remove", "comment-alter", "comment-add", "blank-add", "blank-remove",
         "section-add", "section-remove", "section-rename", "strip-all-blank", "strip-all-labels", "strip-all-sections", "format-remove", "format-alter", "format-add", "indent", "bytes-content", "bytes-length", "cont-add", "cont-remove", "bytes-column-remove"]
FLOORS = {f"edit={e}": 0.012 for e in EDITS}
FLOORS.update({"kinds>=2": 0.4, "edit=format-add": 0.001})
NAMES = ["x" * 1100 + "_long_symbol", "log file format error", "go.string.unknown file format", "Disassembly of section x", "see file format notes", "main", "_start", "f@plt", ".text", "foo+0x10", "_ZN3foo3barEv", "foo(int)", "operator new(unsigned long)", "x", "L1", "data_16", "sym.with.dots", "null check:", "0x2000 <main>:", "note: see below", "Disassembly of section .text:", "operator>>", "std::vector<int>::at(unsigned long)", "a<b>::c", "operator>>", "T<U>", "std::map<K, V>::find"]
HEXNAMES = ["dd", "cc", "bc", "ed", "f", "0", "bad", "cafe", "add", "a", "dead.beef"[:4], "fe", "alarm.o", "libsparcle.so", "/home/u/pharmacy/mipsel/x.o", "charm-ppc-riscv.o", "aarch64_shim.o", "s390.bin"]
INST = re.compile(r"^(\s*)([0-9a-f]+):\t((?:[0-9a-f]{2} )+)(\s*)\t(\S.*)$")


def budget(tier):
    return {"cases": 4000 if tier == "quick" else 60000}


@st.composite
def cases(draw):
    if draw(st.integers(0, 3)) == 0:
        base = {"src": "synthetic", "listing": draw(listings(min_len=2, max_len=16))}
    else:
        base = draw(sources(max_chunks=10))
    edits = []
    for _ in range(draw(st.integers(1, 6))):
        edits.append({"kind": draw(st.sampled_from(EDITS)), "where": draw(st.integers(0, 10**6)), "name": draw(st.sampled_from(NAMES)), "n": draw(st.integers(0, 12)),
                      "hex": draw(st.binary(min_size=7, max_size=7)).hex()})
    if draw(st.integers(0, 3)) == 0:
        # a C++ symbol in an annotation: the name itself contains '<', '>' and blanks (objdump -C)
        edits.append({"kind": "annot-alter", "where": draw(st.integers(0, 10**6)), "name": draw(st.sampled_from(["operator>>", "std::vector<int>::at(unsigned long)", "a<b>::c", "T<U>", "std::map<K, V>::find"])),
                      "n": draw(st.integers(0, 12)), "hex": "00000000000000"})
    if draw(st.integers(0, 3)) == 0:
        # the name of a PLT stub in an annotation (`call 1030 <puts@plt>`): what a linked program's listing is full of
        for _ in range(draw(st.integers(1, 3))):
            edits.append({"kind": "annot-alter", "where": draw(st.integers(0, 10**6)), "name": draw(st.sampled_from(["puts@plt", "f@plt", "__cxa_finalize@plt", "memcpy@plt+0x4", "*ABS*+0x1030@plt"])),
                          "n": draw(st.integers(0, 12)), "hex": "00000000000000"})
    return {"base": base, "edits": edits, "pick": draw(st.integers(0, 10**6))}


def strategy(tier):
    return cases()


def pick(idx, where):
    return idx[where % len(idx)] if idx else None


def fmt_inst(pad, addr, bytestr, text):
    col = bytestr if bytestr.endswith(" ") else bytestr + " "
    return f"{pad}{addr}:\t{col}{' ' * max(0, 21 - len(col))}\t{text}"


def apply_edits(lines, edits):
    """-> (new lines, list of edit kinds actually applied).  Instruction text is never touched except its annotation/comment part."""
    lines = list(lines)
    applied = []
    for e in edits:
        k, w = e["kind"], e["where"]
        inst = [i for i, ln in enumerate(lines) if INST.match(ln)]
        if not inst:
            break
        if k == "label-add":
            i = pick(inst, w)
            a = INST.match(lines[i]).group(2)
            # as objdump prints a label, or with the file offset objdump -F adds after the symbol
            tail = "" if e["n"] % 3 else f" (File Offset: 0x{int(a, 16) + 0x1000:x})"
            lines[i:i] = ["", f"{int(a, 16):016x} <{e['name']}>{tail}:"]
        elif k in ("label-remove", "label-rename"):
            i = pick([i for i, ln in enumerate(lines) if LABEL_LINE.match(ln)], w)
            if i is None:
                continue
            if k == "label-remove":
                del lines[i]
            else:
                lines[i] = re.sub(r"<.*>[^>]*:$", (f"<{e['name']}>:" if e["n"] % 3 else f"<{e['name']}> (File Offset: 0x{e['n'] * 16 + 0x40:x}):"), lines[i])
        elif k in ("annot-remove", "annot-alter"):
            i = pick([i for i in inst if re.search(r"\t[^#]*[0-9a-f] <[^#]*>", lines[i])], w)
            if i is None:
                continue
            m = INST.match(lines[i])
            txt = m.group(5)
            new = re.sub(r"^([^#<]*[0-9a-f]) <[^#]*?>(\s*(#.*)?)$", (r"\1\2" if k == "annot-remove" else r"\1 <" + e["name"].replace("\\", "") + r">\2"), txt)
            lines[i] = lines[i][: m.start(5)] + new
        elif k in ("comment-remove", "comment-alter"):
            i = pick([i for i in inst if "#" in lines[i]], w)
            if i is None:
                continue
            head = lines[i].split("#")[0]
            lines[i] = head.rstrip(" ") if k == "comment-remove" else head + f"# 0x{e['n']:x} <{e['name']}>"
        elif k == "comment-add":
            i = pick([i for i in inst if "#" not in lines[i]], w)
            if i is None:
                continue
            lines[i] = lines[i].rstrip(" ") + " " * (1 + e["n"]) + f"# {e['name']}"
        elif k == "blank-add":
            lines.insert(w % (len(lines) + 1), "")
        elif k == "blank-remove":
            i = pick([i for i, ln in enumerate(lines) if ln == ""], w)
            if i is None:
                continue
            del lines[i]
        elif k == "strip-all-blank":
            lines = [ln for ln in lines if ln != ""]
        elif k == "strip-all-labels":
            lines = [ln for ln in lines if not LABEL_LINE.match(ln)]
        elif k == "strip-all-sections":
            lines = [ln for ln in lines if not ln.startswith("Disassembly of section")]
        elif k == "section-add":
            i = pick(inst, w)
            lines[i:i] = ["", f"Disassembly of section {e['name']}:", ""]
        elif k in ("section-remove", "section-rename"):
            i = pick([i for i, ln in enumerate(lines) if ln.startswith("Disassembly of section")], w)
            if i is None:
                continue
            if k == "section-remove":
                del lines[i]
            else:
                lines[i] = f"Disassembly of section {e['name']}:"
        elif k in ("format-remove", "format-alter"):
            i = pick([i for i, ln in enumerate(lines) if "file format" in ln and not INST.match(ln)], w)
            if i is None:
                continue
            if k == "format-remove":
                del lines[i]
            else:
                lines[i] = f"/some/dir/{e['name']}.o:     file format pei-x86-64" if e["n"] % 3 else f"{HEXNAMES[w % len(HEXNAMES)]}:     file format elf64-x86-64"
        elif k == "format-add":
            if any("file format" in ln for ln in lines):
                continue
            # the name of the disassembled file: anything, also a name made of hexadecimal digits only (`objdump -d dd`, `cc`, `f`)
            lines[0:0] = ["", f"{'a.out' if e['n'] % 2 else HEXNAMES[w % len(HEXNAMES)]}:     file format elf64-x86-64", ""]
        elif k == "indent":
            # 0-12 blanks, or (one time in four) as deep as a listing quoted in nested mail / markdown indentation: 16-56
            pad = " " * (e["n"] if w % 4 else 16 + 4 * (e["n"] % 11))
            for i, ln in enumerate(lines):
                m = INST.match(ln)
                if m:
                    lines[i] = pad + ln[m.start(2):]
                elif CONT_LINE.match(ln):
                    lines[i] = pad + ln.lstrip(" ")
        elif k in ("bytes-content", "bytes-length"):
            i = pick(inst, w)
            m = INST.match(lines[i])
            nb = len(m.group(3)) // 3
            if k == "bytes-length":
                # 1-7 bytes as objdump wraps by default; 8-13 on one line as `objdump --insn-width=N` prints them
                nb = 1 + e["n"] % 7 if e["n"] < 7 else 1 + e["n"]
            hx = e["hex"] * 2
            bs = " ".join(hx[2 * q: 2 * q + 2] for q in range(nb)) + " "
            lines[i] = fmt_inst(m.group(1), m.group(2), bs, m.group(5))
        elif k == "bytes-column-remove":
            # the raw-byte column removed: from the whole listing as `objdump --no-show-raw-insn` prints it (continuation lines
            # go with it), or from one instruction line only
            whole = e["n"] % 2 == 0
            # without the column a text made of hex pairs only (the synthetic vocabulary has an operand-less `fadd`) would be
            # indistinguishable from raw bytes: such lines keep their column
            ok = [i for i in inst if not re.match(r"^(?:[0-9a-f]{2} ?)+$", INST.match(lines[i]).group(5))]
            targets = ok if whole else [i for i in [pick(inst, w)] if i in ok]
            if not targets:
                continue
            for i in targets:
                m = INST.match(lines[i])
                lines[i] = f"{m.group(1)}{m.group(2)}:\t{m.group(5)}"
            if whole and len(ok) == len(inst):
                lines = [ln for ln in lines if not re.match(r"^\s*[0-9a-f]+:\t(?:[0-9a-f]{2} )+\s*$", ln)]
        elif k == "cont-add":
            i = pick(inst, w)
            m = INST.match(lines[i])
            lines.insert(i + 1, f"{m.group(1)}{int(m.group(2), 16) + 7:x}:\t{e['hex'][:2]} {e['hex'][2:4]} ")
        elif k == "cont-remove":
            i = pick([i for i, ln in enumerate(lines) if CONT_LINE.match(ln) and not INST.match(ln)], w)
            if i is None:
                continue
            del lines[i]
        applied.append(k)
    return lines, applied


_OK = re.compile(r"^[a-z][a-z0-9]*$")


def evaluate(case):
    ev = Eval()
    base = case["base"]
    if base["src"] == "synthetic":
        text = render(att_view(base["listing"]))
        ev.tags = ["synthetic"]
    else:
        rc, text, _ = listing_for(base)
        ev.tags = [source_tag(base)]
        if rc != 0:
            return ev
    lines = text.split("\n")
    new_lines, applied = apply_edits(lines, case["edits"])
    ev.tags += sorted({f"edit={k}" for k in applied})
    if len(set(applied)) >= 2:
        ev.tags.append("kinds>=2")
    if not applied:
        return ev
    new_text = "\n".join(new_lines)
    # rules from the base listing
    mns = []
    for ln in lines:
        m = INST.match(ln)
        if m:
            tok = m.group(5).split(" ")[0]
            mns.append(tok if _OK.match(tok) else None)
    rules = [["zzzzqq"]]
    good = [q for q, m in enumerate(mns) if m]
    if good:
        q = good[case["pick"] % len(good)]
        rules.append([mns[q]])
        if q + 1 < len(mns) and mns[q + 1]:
            rules.append([mns[q], mns[q + 1]])
    sc = jasm_io.scratch()
    p0 = sc.write("c16_base.s", text)
    p1 = sc.write("c16_edit.s", new_text)
    ev.subcases = 0
    first = True
    for rule in rules:
        rp = sc.write("c16_rule.yaml", jasm_io.rule_text(jasm_io.make_doc(rule)))
        modes = [("str", "first", False)] if first else []
        if first:
            # the stream again with the address-range observer installed (same option on both sides)
            # and a `sections` list, which concerns binaries only and must not make section headers of a listing matter
            import zlib

            cfg2 = {"valid_addr_range": {"min": "0x1000", "max": "0x2000"}, "sections": [".text", ".init"]}
            st_ = [None, "intel", "att", "intel"][zlib.crc32(text.encode()) % 4]
            if st_:
                cfg2["style"] = st_  # the style a rule asks objdump for: a text listing is read the same way whatever it says
                ev.tags.append("config-style=" + st_)
            rp2 = sc.write("c16_rule_range.yaml", jasm_io.rule_text(jasm_io.make_doc(rule, config=cfg2)))
            a = jasm_io.match_files(rp2, p0, mode="str")
            b = jasm_io.match_files(rp2, p1, mode="str")
            ev.subcases += 1
            if "inconclusive" not in (a[0], b[0]) and a[:2] != b[:2]:
                ev.dev("result-changed-by-presentation", mode="str", with_config="valid_addr_range+sections" + ("+style=" + st_ if st_ else ""), edits=applied, **_first_diff(a, b))
                break
        first = False
        for mode, search, only in modes + [("list", "all", False)]:
            a = jasm_io.match_files(rp, p0, mode=mode, search=search, only_addr=only)
            b = jasm_io.match_files(rp, p1, mode=mode, search=search, only_addr=only)
            ev.subcases += 1
            if "inconclusive" in (a[0], b[0]):
                ev.inconclusive += 1
                continue
            if a[:2] != b[:2]:
                d = _first_diff(a, b)
                ev.dev("result-changed-by-presentation", mode=mode, rule=rule, edits=applied, **d)
                break
        if ev.deviations:
            break
    has_annot = any(INST.match(ln) and ("<" in ln or "#" in ln) for ln in lines)
    ev.nontrivial = len(set(applied)) >= 2 and has_annot
    ev.keys = [(text, new_text)]
    ev.sample = {"edits": applied, "base_head": [ln for ln in lines if ln][:6], "edited_head": [ln for ln in new_lines if ln][:8]}
    return ev


def _first_diff(a, b):
    if a[0] != "ok" or b[0] != "ok":
        return {"base": list(a[:3]), "edited": list(b[:3])}
    x, y = a[1], b[1]
    if isinstance(x, str):
        xs, ys = x.split("|"), y.split("|")
        for q, (u, v) in enumerate(zip(xs, ys)):
            if u != v:
                return {"record_index": q, "base": u, "edited": v}
        return {"record_counts": [len(xs), len(ys)], "extra": (xs[len(ys):] or ys[len(xs):])[:2]}
    return {"base": x[:3], "edited": y[:3]}
