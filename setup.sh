#!/bin/sh
# Offline setup: make sure the interpreter that has the repository installed can import what the checks need.
set -e
cd "$(dirname "$0")"
if ! /venv/bin/python -c "import hypothesis" 2>/dev/null; then
  PIP_NO_INDEX=1 /venv/bin/pip install --no-index --find-links /opt/veriftools/wheels hypothesis
fi
# atheris (coverage-guided stage of the thorough tier) lives beside the checks, not in the repository's venv
if [ ! -d .deps/atheris ]; then
  PIP_NO_INDEX=1 /venv/bin/pip install -q --no-index --find-links /opt/veriftools/wheels --target .deps atheris || echo "setup: atheris not installed, the coverage-guided stage will be skipped"
fi
/venv/bin/python - <<'PY'
import hypothesis, regex, yaml, shutil, sys
assert shutil.which("objdump"), "objdump missing"
print("setup ok: hypothesis", hypothesis.__version__, "python", sys.version.split()[0])
PY
mkdir -p .work evidence replays
